#!/bin/bash
# Confirms a seeded change produced by a sub-agent in its scratch worktree and files it under /verif/seeded/<name>/.
#   tools/confirm_seed.sh <name> <worktree> <property> [check-budget-s]
# Steps: (1) the change is taken as `git diff -- include c-interface`; (2) the existing test suite, unedited, is rebuilt
# and run with the change (every Catch test case, 8 at a time); (3) the demonstration is built and run with the change
# (must fail) and without it (must pass); (4) the property's quick check is run against the changed tree (REPO=worktree,
# private build/evidence/replay directories). Nothing is ever applied to /repo. The worktree is removed afterwards.
set -u
NAME=$1; W=$2; PROP=$3; BUDGET=${4:-40}
D=/verif/seeded/$NAME
mkdir -p "$D"
cd "$W" || exit 2
# the agent's deliverable is SEED/patch.diff; the working state of its worktree is not trusted (agents used `git stash`,
# whose stack is shared between worktrees): reset to HEAD and apply the deliverable
if [ -s SEED/patch.diff ]; then
    cp -f SEED/patch.diff "$D/patch.diff"
    git checkout -q -- include c-interface
    git apply "$D/patch.diff" || { echo "$NAME: SEED/patch.diff does not apply to HEAD"; exit 2; }
else
    git diff -- include c-interface > "$D/patch.diff"
fi
[ -s "$D/patch.diff" ] || { echo "$NAME: empty patch"; exit 2; }
cp -f SEED/demo.cpp "$D/demo.cpp" 2>/dev/null
cp -f SEED/README.md "$D/agent_README.md" 2>/dev/null
for f in SEED/*; do case "$f" in *patch.diff|*demo.cpp|*README.md|*/demo|*.o) ;; *) [ -f "$f" ] && [ $(stat -c %s "$f") -lt 200000 ] && cp -f "$f" "$D/" ;; esac; done
LOG="$D/confirm.log"; : > "$LOG"
# (2) existing suite with the change
cmake -S "$W" -B "$W/_build" -DCMAKE_BUILD_TYPE=RelWithDebInfo -DBUILD_EXAMPLES=OFF -DBUILD_PGM_TUNER=OFF -DBUILD_PGM_BENCHMARK=OFF > /dev/null 2>&1
touch "$W/test/tests.cpp"
if ! cmake --build "$W/_build" --target tests -j8 >> "$LOG" 2>&1; then echo "$NAME: tests do not compile with the change" | tee -a "$LOG"; suite="COMPILE-FAILED"; else
  T="$W/_suite"; rm -rf "$T"; mkdir -p "$T"; "$W/_build/test/tests" --list-test-names-only > "$T/names.txt"
  i=0; while IFS= read -r name; do i=$((i+1)); ( mkdir -p "$T/d$i"; cd "$T/d$i"; "$W/_build/test/tests" "$name" > "$T/t$i.log" 2>&1; echo "rc=$? $name" >> "$T/results.txt" ) &
     while [ $(jobs -r | wc -l) -ge 8 ]; do sleep 1; done; done < "$T/names.txt"; wait
  pass=$(grep -c '^rc=0' "$T/results.txt"); total=$(wc -l < "$T/names.txt")
  suite="$pass/$total"; grep -v '^rc=0' "$T/results.txt" >> "$LOG"
fi
echo "suite_with_change: $suite" | tee -a "$LOG"
# (3) demonstration with and without the change
demo_build() { g++ -std=c++17 -O2 -march=native -fopenmp -I"$W/include" -I"$W/c-interface" $DEMO_EXTRA "$D/demo.cpp" $DEMO_LINK -o "$W/_demo" >> "$LOG" 2>&1; }
DEMO_EXTRA=""; DEMO_LINK=""
grep -q 'cpgm.h' "$D/demo.cpp" 2>/dev/null && ! grep -q 'cpgm.cpp"' "$D/demo.cpp" && DEMO_LINK="$W/c-interface/cpgm.cpp"
grep -q 'pthread\|<thread>' "$D/demo.cpp" 2>/dev/null && DEMO_LINK="$DEMO_LINK -lpthread"
grep -q 'fsanitize=thread' "$D/agent_README.md" 2>/dev/null && DEMO_EXTRA="-fsanitize=thread -g"
demo_build; (cd "$W" && timeout 900 ./_demo > "$W/_demo_with.txt" 2>&1); with_rc=$?
git apply -R "$D/patch.diff"; demo_build; (cd "$W" && timeout 900 ./_demo > "$W/_demo_without.txt" 2>&1); without_rc=$?; git apply "$D/patch.diff"   # never git stash: the stash stack is shared between worktrees
echo "demo_with_change_rc: $with_rc   demo_without_change_rc: $without_rc" | tee -a "$LOG"
tail -3 "$W/_demo_with.txt" >> "$LOG"; tail -2 "$W/_demo_without.txt" >> "$LOG"
# (4) my check against the changed tree
S=$(mktemp -d /tmp/pgm-seedcheck-XXXXXX)
REPO="$W" BUILD="$S/build" VERIF_EVIDENCE_DIR="$S/ev" VERIF_REPLAYS_DIR="$S/rp" VERIF_BUDGET_S=$BUDGET /verif/bin/check "$PROP" > "$S/log" 2>&1; rc=$?
clauses=$(grep -o 'clause=[a-z0-9-]*' "$S/log" | sort | uniq -c | tr '\n' ' ')
if [ $rc -eq 1 ]; then verdict=CAUGHT; elif [ $rc -eq 0 ]; then verdict=MISSED; else verdict="BROKEN(rc=$rc)"; fi
echo "check $PROP quick (budget ${BUDGET}s): $verdict [$clauses]" | tee -a "$LOG"
grep -E '^VIOLATION|violation detail|^  ' "$S/log" | head -8 | cut -c1-400 >> "$LOG"
tail -1 "$S/log" | cut -c1-400 >> "$LOG"
rm -rf "$S"
python3 - "$NAME" "$PROP" "$suite" "$with_rc" "$without_rc" "$verdict" "$clauses" "$BUDGET" <<'PY'
import json,sys
name,prop,suite,w,wo,verdict,clauses,budget=sys.argv[1:9]
meta={"id":name,"property":prop,"source":"independent sub-agent given only the property text and a scratch worktree",
 "existing_suite_with_change":suite,"demo_exit_with_change":int(w),"demo_exit_without_change":int(wo),
 "check_run":"REPO=<scratch worktree with the change> bin/check %s (quick tier, budget %ss)"%(prop,budget),
 "check_verdict":verdict,"check_clauses":clauses.strip(),
 "needs_to_manifest":"see agent_README.md","confirmed_by":"tools/confirm_seed.sh (log in confirm.log)"}
json.dump(meta,open('/verif/seeded/%s/meta.json'%name,'w'),indent=1)
PY
cd /; git -C /repo worktree remove --force "$W" 2>/dev/null || rm -rf "$W"
echo "$NAME done: suite=$suite demo=$with_rc/$without_rc check=$verdict"
