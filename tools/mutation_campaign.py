#!/usr/bin/env python3
"""Mechanical mutation campaign (tooling, not a registered check).

Generates one-token mutants of the library sources, and for each one, in a scratch worktree outside /repo and /verif:
  1. builds the engines of the checks that cover the mutated code (plain flavour) and runs those checks with a short
     budget; a gated VIOLATION => "caught";
  2. otherwise re-runs the same checks in all flavours with the quick budget; VIOLATION => "caught-full";
  3. otherwise builds and runs the existing suite; a failing suite => "killed-by-suite" (out of scope: the brief is about
     changes that pass the tests);
  4. otherwise => "survived": to be triaged by hand (equivalent mutant / outside every property / a gap in the checks).
Nothing is ever applied to /repo; the worktree and its build output are removed after each mutant.

usage: mutation_campaign.py list                      # print every candidate mutant
       mutation_campaign.py run <n> <seed> <slot> <nslots> <outfile>   # run the sample's mutants i with i % nslots == slot
"""
import json, os, random, re, shutil, subprocess, sys, time

REPO = '/repo'
VERIF = '/verif'
FILES = ['include/pgm/piecewise_linear_model.hpp', 'include/pgm/pgm_index.hpp', 'include/pgm/pgm_index_variants.hpp',
         'include/pgm/pgm_index_dynamic.hpp', 'c-interface/cpgm.cpp']

CLASS_CHECKS = {
    'CompressedPGMIndex': ['C08', 'C19', 'C17'], 'BucketingPGMIndex': ['C09', 'C19', 'C17'], 'EliasFanoPGMIndex': ['C10', 'C19', 'C17'],
    'MappedPGMIndex': ['C11', 'C12', 'C17'], 'MultidimensionalPGMIndex': ['C17', 'C19', 'C20', 'C16'],
    'OneLevelPGMIndex': ['C16', 'C17'],
}
FILE_CHECKS = {
    'include/pgm/piecewise_linear_model.hpp': ['C03', 'C04', 'C01', 'C20'],
    'include/pgm/pgm_index.hpp': ['C01', 'C02', 'C07', 'C20'],
    'include/pgm/pgm_index_dynamic.hpp': ['C05', 'C06', 'C15', 'C20'],
    'c-interface/cpgm.cpp': ['C18', 'C20'],
}

SUBS = [(' < ', ' <= '), (' <= ', ' < '), (' > ', ' >= '), (' >= ', ' > '), (' == ', ' != '), (' != ', ' == '),
        (' + 1', ' + 2'), (' + 1', ''), (' - 1', ''), (' - 1', ' - 2'), (' + 2', ' + 1'), (' + 2', ' + 3'), (' + 3', ' + 2'),
        (' && ', ' || '), (' || ', ' && '), ('std::min', 'std::max'), ('std::max', 'std::min'),
        ('(!', '('), ('++', '--'), (' + ', ' - '), (' - ', ' + '), ('true', 'false'), ('false', 'true'), (' / ', ' * ')]
STMT = re.compile(r'^\s+(?:\+\+|--)?[A-Za-z_][\w\.\[\]\(\)>\-:]*(?:\+\+|--)?\s*;\s*$|^\s+[A-Za-z_][\w\.\[\]>\-]*\s(?:=|\+=|-=|\|=)\s[^;]*;\s*$|^\s+[A-Za-z_][\w\.:>\-]*\([^;]*\);\s*$')


def candidates():
    out = []
    for f in FILES:
        lines = open(os.path.join(REPO, f)).read().split('\n')
        in_guard = False
        in_block_comment = False
        cls = None
        for i, ln in enumerate(lines):
            s = ln.strip()
            if s.startswith('#if') and 'PGM_INDEX_VERIF' in s:
                in_guard = True
            if in_guard:
                if s.startswith('#endif'):
                    in_guard = False
                continue
            if '/*' in s and '*/' not in s:
                in_block_comment = True
            if in_block_comment:
                if '*/' in s:
                    in_block_comment = False
                continue
            m = re.match(r'^class (\w+)', ln)
            if m:
                cls = m.group(1)
            if not s or s.startswith('//') or s.startswith('*') or s.startswith('#') or s.startswith('static_assert') or \
               s.startswith('template') or s.startswith('using ') or s.startswith('friend ') or s.startswith('throw ') or 'std::to_string' in s:
                continue
            code = ln.split('//')[0]
            for a, b in SUBS:
                start = 0
                while True:
                    k = code.find(a, start)
                    if k < 0:
                        break
                    start = k + len(a)
                    if a in ('++', ' + ', ' - ') and ('for (' in code and a == '++'):
                        pass
                    if a == '(!' and 'if' not in code and 'while' not in code and 'return' not in code:
                        continue
                    if a in (' < ', ' > ') and ('template' in code or 'typename' in code):
                        continue
                    out.append({'file': f, 'line': i + 1, 'cls': cls, 'op': '%s->%s' % (a.strip() or a, b.strip() or "''"),
                                'new': code[:k] + b + code[k + len(a):] + ln[len(code):], 'old': ln})
            if STMT.match(code) and not s.startswith('return') and not s.startswith('break') and not s.startswith('continue'):
                out.append({'file': f, 'line': i + 1, 'cls': cls, 'op': 'delete-statement', 'new': re.match(r'^\s*', ln).group(0) + ';', 'old': ln})
    return out


def checks_for(m):
    if m['file'].endswith('pgm_index_variants.hpp'):
        return CLASS_CHECKS.get(m['cls'], ['C17'])
    return FILE_CHECKS[m['file']]


def sh(cmd, **kw):
    return subprocess.run(cmd, shell=True, stdout=subprocess.PIPE, stderr=subprocess.STDOUT, text=True, **kw)


def run_checks(W, B, checks, budget, flavours, workers):
    caught = []
    for c in checks:
        env = dict(os.environ, REPO=W, BUILD=B, VERIF_EVIDENCE_DIR=B + '/ev', VERIF_REPLAYS_DIR=B + '/rp', VERIF_BUDGET_S=str(budget),
                   VERIF_WORKERS=str(workers))
        if flavours:
            env['VERIF_ONLY_FLAVOURS'] = flavours
        r = subprocess.run([VERIF + '/bin/check', c], env=env, stdout=subprocess.PIPE, stderr=subprocess.STDOUT, text=True)
        if r.returncode == 1:
            cl = sorted(set(re.findall(r'clause=([a-z0-9-]+)', r.stdout)))
            caught.append((c, cl))
            break
        if r.returncode == 2:
            if 'BUILD-FAILED' in r.stdout:
                return 'build-failed', []
            caught.append((c, ['nonreproducible-or-broken']))
            break
    return ('caught' if caught else 'quiet'), caught


def suite(W):
    r = sh('cmake -S %s -B %s/_build -DCMAKE_BUILD_TYPE=RelWithDebInfo -DBUILD_EXAMPLES=OFF -DBUILD_PGM_TUNER=OFF -DBUILD_PGM_BENCHMARK=OFF > /dev/null 2>&1 && cmake --build %s/_build --target tests -j8 2>&1 | tail -3' % (W, W, W))
    exe = W + '/_build/test/tests'
    if not os.path.exists(exe):
        return 'suite-does-not-compile'
    names = sh(exe + ' --list-test-names-only').stdout.strip().split('\n')
    procs = []
    failed = 0
    for i, n in enumerate(names):
        d = '%s/_suite/d%d' % (W, i)
        os.makedirs(d, exist_ok=True)
        procs.append(subprocess.Popen([exe, n], cwd=d, stdout=subprocess.DEVNULL, stderr=subprocess.DEVNULL))
        while sum(1 for p in procs if p.poll() is None) >= 8:
            time.sleep(0.3)
    deadline = time.time() + 900
    for p in procs:
        try:
            rc = p.wait(timeout=max(1, deadline - time.time()))
        except subprocess.TimeoutExpired:
            p.kill(); rc = 99
        failed += rc != 0
    return 'suite-pass' if failed == 0 else 'suite-fail(%d)' % failed


def main():
    if sys.argv[1] == 'list':
        c = candidates()
        for m in c:
            print('%s:%d [%s] %s' % (m['file'], m['line'], m['cls'], m['op']))
        print(len(c), 'candidates', file=sys.stderr)
        return
    n, seed, slot, nslots, outfile = int(sys.argv[2]), int(sys.argv[3]), int(sys.argv[4]), int(sys.argv[5]), sys.argv[6]
    c = candidates()
    random.Random(seed).shuffle(c)
    # stratify: round-robin over files so that small files are represented
    by = {}
    for m in c:
        by.setdefault(m['file'] + ':' + str(m['cls']), []).append(m)
    sample = []
    while len(sample) < n and any(by.values()):
        for k in sorted(by):
            if by[k] and len(sample) < n:
                sample.append(by[k].pop())
    done = set()   # keyed by content, not by line number: fix commits shift the lines of later mutants
    if os.path.exists(outfile):
        for ln in open(outfile):
            r = json.loads(ln)
            done.add((r['file'], r['old'], r['op'], r['new']))
    workers = int(os.environ.get('MUT_WORKERS', '8'))
    for i, m in enumerate(sample):
        if i % nslots != slot:
            continue
        mid = '%s:%d:%s' % (os.path.basename(m['file']), m['line'], m['op'])
        if (m['file'], m['old'].strip(), m['op'], m['new'].strip()) in done:
            continue
        S = '/tmp/mut/s%d' % slot
        shutil.rmtree(S, ignore_errors=True)
        os.makedirs(S)
        W, B = S + '/repo', S + '/build'
        sh('rsync -a --exclude _build --exclude .git %s/ %s/' % (REPO, W))  # a plain copy: nothing in /repo (not even .git) is touched
        p = os.path.join(W, m['file'])
        lines = open(p).read().split('\n')
        assert lines[m['line'] - 1] == m['old']
        lines[m['line'] - 1] = m['new']
        open(p, 'w').write('\n'.join(lines))
        t0 = time.time()
        checks = checks_for(m)
        verdict, caught = run_checks(W, B, checks, 12, 'plain', workers)
        stage = 'plain'
        if verdict == 'quiet':
            verdict, caught = run_checks(W, B, checks, 25, '', workers)
            stage = 'full'
        st = ''
        if verdict == 'quiet':
            st = suite(W)
            verdict = 'survived' if st == 'suite-pass' else 'killed-by-suite'
        rec = {'id': mid, 'file': m['file'], 'line': m['line'], 'cls': m['cls'], 'op': m['op'], 'old': m['old'].strip(), 'new': m['new'].strip(),
               'checks': checks, 'verdict': verdict, 'stage': stage, 'caught_by': caught, 'suite': st, 'seconds': round(time.time() - t0)}
        with open(outfile, 'a') as f:
            f.write(json.dumps(rec) + '\n')
        shutil.rmtree(S, ignore_errors=True)


if __name__ == '__main__':
    main()
