#!/bin/bash
# Re-runs a property's quick check against an already confirmed seeded change (after the checks were strengthened).
#   tools/recheck_seed.sh <name> [budget-s]     — patch and property are taken from /verif/seeded/<name>/
set -u
NAME=$1; BUDGET=${2:-40}
D=/verif/seeded/$NAME
PROP=$(python3 -c "import json;print(json.load(open('$D/meta.json'))['property'])")
S=$(mktemp -d /tmp/pgm-recheck-XXXXXX)
git -C /repo worktree add -q --detach "$S/repo" HEAD || exit 2
git -C "$S/repo" apply "$D/patch.diff" || { echo "$NAME: patch does not apply"; git -C /repo worktree remove --force "$S/repo"; rm -rf "$S"; exit 2; }
REPO="$S/repo" BUILD="$S/build" VERIF_EVIDENCE_DIR="$S/ev" VERIF_REPLAYS_DIR="$S/rp" VERIF_BUDGET_S=$BUDGET /verif/bin/check "$PROP" > "$S/log" 2>&1; rc=$?
clauses=$(grep -o 'clause=[a-z0-9-]*' "$S/log" | sort | uniq -c | tr '\n' ' ')
if [ $rc -eq 1 ]; then verdict=CAUGHT; elif [ $rc -eq 0 ]; then verdict=MISSED; else verdict="BROKEN(rc=$rc)"; fi
echo "recheck $PROP quick (budget ${BUDGET}s): $verdict [$clauses]" | tee -a "$D/confirm.log"
grep -E 'violation detail|^  ' "$S/log" | head -4 | cut -c1-400 >> "$D/confirm.log"
python3 - "$D/meta.json" "$verdict" "$clauses" <<'PY'
import json,sys
m=json.load(open(sys.argv[1]))
hist=m.setdefault('check_history',[])
hist.append({'verdict':m.get('check_verdict'),'clauses':m.get('check_clauses')})
m['check_verdict']=sys.argv[2]; m['check_clauses']=sys.argv[3].strip()
json.dump(m,open(sys.argv[1],'w'),indent=1)
PY
git -C /repo worktree remove --force "$S/repo"; rm -rf "$S"
