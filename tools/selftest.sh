#!/bin/bash
# Sensitivity self-test (DESIGN.md 7): applies each mutant of /verif/mutants to a scratch worktree of the repository
# (outside /repo and /verif, removed with its build output right after use), runs the property's quick check against
# it and requires a gated VIOLATION (exit 1).  Usage: tools/selftest.sh [mutant-name-pattern] [budget-seconds]
# Results are appended to tools/selftest_results.txt.
set -u
VERIF=/verif
REPO=${REPO:-/repo}
PATTERN=${1:-M}
BUDGET=${2:-25}
OUT=$VERIF/tools/selftest_results.txt
for patch in $VERIF/mutants/*${PATTERN}*.patch; do
    name=$(basename "$patch" .patch)
    prop=$(sed -n 's/^# property: //p' "$patch" | head -1)
    W=$(mktemp -d /tmp/pgm-selftest-XXXXXX)
    git -C "$REPO" worktree add -q --detach "$W/repo" HEAD || { echo "$name: worktree failed"; continue; }
    if ! git -C "$W/repo" apply "$patch"; then echo "$name $prop APPLY-FAILED" | tee -a "$OUT"; git -C "$REPO" worktree remove --force "$W/repo"; rm -rf "$W"; continue; fi
    start=$(date +%s)
    REPO="$W/repo" BUILD="$W/build" VERIF_EVIDENCE_DIR="$W/ev" VERIF_REPLAYS_DIR="$W/rp" VERIF_BUDGET_S=$BUDGET \
        "$VERIF/bin/check" "$prop" > "$W/log" 2>&1
    rc=$?
    end=$(date +%s)
    clauses=$(grep -o 'clause=[a-z0-9-]*' "$W/log" | sort | uniq -c | tr '\n' ' ')
    viol=$(grep -c '^VIOLATION' "$W/log")
    if [ $rc -eq 1 ] && [ "$viol" -gt 0 ]; then verdict=CAUGHT; elif [ $rc -eq 0 ]; then verdict=MISSED; else verdict="BROKEN(rc=$rc)"; fi
    echo "$name $prop $verdict in $((end-start))s budget=${BUDGET}s [$clauses]" | tee -a "$OUT"
    [ "$verdict" != CAUGHT ] && tail -5 "$W/log" | cut -c1-300
    git -C "$REPO" worktree remove --force "$W/repo"
    rm -rf "$W"
done
