#!/usr/bin/env python3
"""Determinism proof (DESIGN.md 7): every run index is executed twice per configuration, once in a 16-process layout and
once in a 3-process layout (different processes, different neighbours, different address-space layouts), and the trace
hashes are compared run by run.  Usage: tools/determinism.py [runs-per-case]      (default 2000)
Prints one line per (engine, flavour, property) and exits 1 on the first divergence."""
import os, subprocess, sys
from concurrent.futures import ThreadPoolExecutor

BUILD = os.environ.get('BUILD', '/verif/build')
CASES = [('buildsim', 'plain', 'C01'), ('buildsim', 'plain', 'C02'), ('buildsim', 'plain', 'C04'), ('buildsim', 'plain', 'C08'), ('buildsim', 'plain', 'C19'),
         ('buildsim', 'asan', 'C03'), ('buildsim', 'asan', 'C10'), ('buildsim', 'tsan', 'C01'),
         ('histsim', 'plain', 'C05'), ('histsim', 'plain', 'C15'), ('histsim', 'asan', 'C06'), ('histsim', 'plain', 'C20'), ('histsim', 'plain', 'C18'),
         ('filesim', 'plain', 'C11'), ('filesim', 'asan', 'C12'),
         ('readsim', 'plain', 'C16'), ('readsim', 'tsan', 'C16'), ('readsim', 'asan', 'C16')]


def run(engine, flavour, prop, worker, nworkers, maxruns):
    cmd = [os.path.join(BUILD, flavour, engine), '--prop', prop, '--worker', str(worker), '--nworkers', str(nworkers), '--max-runs', str(maxruns),
           '--budget-s', '100000', '--outdir', '/tmp', '--seed', os.environ.get('VERIF_SEED', '1')]
    out = subprocess.run(cmd, stdout=subprocess.PIPE, stderr=subprocess.DEVNULL, text=True).stdout
    res = {}
    for line in out.splitlines():
        if line.startswith('E '):
            f = line.split()
            res[int(f[1])] = (f[2], f[3])
    return res


def layout(engine, flavour, prop, nworkers, total):
    per = (total + nworkers - 1) // nworkers
    merged = {}
    with ThreadPoolExecutor(max_workers=16) as ex:
        for r in ex.map(lambda w: run(engine, flavour, prop, w, nworkers, per), range(nworkers)):
            merged.update(r)
    return merged


def main():
    total = int(sys.argv[1]) if len(sys.argv) > 1 else 2000
    bad = 0
    for engine, flavour, prop in CASES:
        n = total if flavour != 'tsan' else max(48, total // 20)
        a = layout(engine, flavour, prop, 16, n)
        b = layout(engine, flavour, prop, 3, n)
        common = sorted(set(a) & set(b))
        diff = [i for i in common if a[i] != b[i]]
        print('%-9s %-5s %s: %d run indices executed twice (16-process vs 3-process layout), %d divergent%s' % (
            engine, flavour, prop, len(common), len(diff), (' e.g. run %d: %s vs %s' % (diff[0], a[diff[0]], b[diff[0]])) if diff else ''), flush=True)
        bad += len(diff)
    return 1 if bad else 0


if __name__ == '__main__':
    sys.exit(main())
