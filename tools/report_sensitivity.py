#!/usr/bin/env python3
"""Prints the sensitivity tables of DESIGN.md 7 from /verif/seeded/*/meta.json and tools/selftest_results.txt."""
import glob, json, os, re
print('| Seeded change (independent sub-agent) | Property | Existing suite with the change | Demo with / without | Check verdict | Clauses that fired |')
print('|---|---|---|---|---|---|')
for d in sorted(glob.glob('/verif/seeded/*/meta.json')):
    m = json.load(open(d))
    cl = re.sub(r'\s+', ' ', m.get('check_clauses', '')).replace('clause=', '')
    hist = m.get('check_history', [])
    v = m['check_verdict'] + (' (after strengthening; first run: %s)' % hist[0]['verdict'] if hist and hist[0]['verdict'] != m['check_verdict'] else '')
    if m.get('strengthened_before_first_run'): v += ' (generator extended after reading the agent\'s report, before the first run)'
    print('| `%s` | %s | %s | %s / %s | %s | %s |' % (m['id'], m['property'], m['existing_suite_with_change'], 'fails' if m['demo_exit_with_change'] else 'passes', 'passes' if m['demo_exit_without_change'] == 0 else 'fails', v, cl))
print()
print('| Mutant (own) | Property | Verdict (quick check, 20 s budget) | Clauses |')
print('|---|---|---|---|')
res = {}
for line in open('/verif/tools/selftest_results.txt'):
    f = line.split()
    if len(f) >= 3:
        res[f[0]] = (f[1], f[2], re.sub(r'\s+', ' ', line[line.find('['):].strip('[] \n')).replace('clause=', ''))
for k in sorted(res):
    print('| `%s` | %s | %s | %s |' % (k, res[k][0], res[k][1], res[k][2]))
