#!/usr/bin/env python3
"""Rewrites the per-check text fields of MANIFEST.json from bin/props.py (everything else in the manifest is kept)."""
import json, os, sys
sys.path.insert(0, os.path.join(os.path.dirname(os.path.abspath(__file__)), '..', 'bin'))
import props
V = os.path.join(os.path.dirname(os.path.abspath(__file__)), '..')
m = json.load(open(os.path.join(V, 'MANIFEST.json')))
LEAD = {'exploration': 'Seeded exploration of simulated executions: many bounded runs on 16 workers, every failure gated (fresh-process re-execution must reproduce verdict and trace hash), minimised, and replayed. Evidence over the explored seeds, configurations and sizes, not a proof. ',
        'fault_enumeration': 'Enumeration of fault positions inside sampled cases (exhaustive per small case), every failure gated, minimised and replayed. Evidence over the enumerated positions and the sampled cases, not a proof. '}
for c in m['checks']:
    spec = props.PROPS[c['property_id']]
    c['level_claimed']['category'] = spec['level']
    c['level_claimed']['text'] = LEAD[spec['level']] + spec['rule']
    c['level_note'] = '; '.join(spec['assumptions'])
json.dump(m, open(os.path.join(V, 'MANIFEST.json'), 'w'), indent=1)
print('MANIFEST.json rewritten:', len(m['checks']), 'checks')
