// Exact feasibility oracle for epsilon-bounded piecewise-linear models over integer keys (DESIGN.md 4.3).
//
// A line a*x+b stays within the band [lo_i, hi_i] = [max(y_i-eps,0), y_i+eps] of points p_1..p_m (x strictly
// increasing) iff there is a slope a with
//        max_{i<j} (lo_j - hi_i)/(x_j - x_i)  <=  a  <=  min_{i<j} (hi_j - lo_i)/(x_j - x_i)
// (for a fixed a the intercept b must lie in the intersection of the intervals [lo_i - a x_i, hi_i - a x_i], which is
// non-empty iff every lower end is <= every upper end; writing that out pair by pair gives the two bounds above).
// All arithmetic is exact in 128-bit integers: |dy| < 2^40 and |dx| <= 2^65 in every use, products < 2^106.
//
// Two implementations that share no code with the builder's hull/rectangle update:
//   Naive: the definition, O(m) per added point.
//   Fast:  the two bounds are attained at vertices of the lower hull of {(x_i,hi_i)} resp. the upper hull of
//          {(x_i,lo_i)}; monotone chains + tangent binary search, O(log m) per added point.
// The engines cross-check Fast against Naive on every segment short enough.
#pragma once
#include <cstddef>
#include <cstdint>
#include <vector>

namespace pla {

using i128 = __int128;

struct Pt { i128 x; int64_t y; };

struct Frac { // num/den with den > 0; den == 0 encodes -inf (num<0) / +inf (num>0)
    i128 num, den;
};
inline bool frac_less(const Frac &a, const Frac &b) { // a < b, both finite or infinite
    if (a.den == 0 && b.den == 0) return a.num < b.num;
    if (a.den == 0) return a.num < 0;
    if (b.den == 0) return b.num > 0;
    return a.num * b.den < b.num * a.den;
}

inline int64_t band_lo(int64_t y, int64_t eps) { return y <= eps ? 0 : y - eps; }
inline int64_t band_hi(int64_t y, int64_t eps) { return y + eps; }

/// The definition. add() returns whether the points added so far are still feasible.
class Naive {
    int64_t eps;
    std::vector<Pt> pts;
    Frac amax{-1, 0}, amin{1, 0};
public:
    explicit Naive(int64_t eps) : eps(eps) {}
    void clear() { pts.clear(); amax = Frac{-1, 0}; amin = Frac{1, 0}; }
    size_t size() const { return pts.size(); }
    bool add(const Pt &p) {
        for (const Pt &q : pts) {
            i128 dx = p.x - q.x;
            Frac lb{i128(band_lo(p.y, eps) - band_hi(q.y, eps)), dx};
            Frac ub{i128(band_hi(p.y, eps) - band_lo(q.y, eps)), dx};
            if (frac_less(amax, lb)) amax = lb;
            if (frac_less(ub, amin)) amin = ub;
        }
        pts.push_back(p);
        return !frac_less(amin, amax);
    }
    bool feasible() const { return !frac_less(amin, amax); }
};

/// Hull-based version of the same two bounds.
class Fast {
    struct V { i128 x; i128 y; };
    int64_t eps;
    std::vector<V> lowhull_hi; // lower convex hull of (x_i, hi_i)
    std::vector<V> uphull_lo;  // upper convex hull of (x_i, lo_i)
    Frac amax{-1, 0}, amin{1, 0};
    size_t n = 0;

    static i128 cross(const V &o, const V &a, const V &b) { return (a.x - o.x) * (b.y - o.y) - (a.y - o.y) * (b.x - o.x); }

    // max over hull vertices v of slope(v -> t), t strictly right of all vertices, hull = lower hull (edges turn left)
    static Frac max_slope_to(const std::vector<V> &h, const V &t) {
        size_t lo = 0, hi = h.size() - 1; // find first i such that t is NOT strictly above line(h[i],h[i+1])
        while (lo < hi) {
            size_t mid = (lo + hi) / 2;
            if (cross(h[mid], h[mid + 1], t) > 0) lo = mid + 1; else hi = mid;
        }
        return Frac{t.y - h[lo].y, t.x - h[lo].x};
    }
    // min over hull vertices v of slope(v -> t), hull = upper hull (edges turn right)
    static Frac min_slope_to(const std::vector<V> &h, const V &t) {
        size_t lo = 0, hi = h.size() - 1;
        while (lo < hi) {
            size_t mid = (lo + hi) / 2;
            if (cross(h[mid], h[mid + 1], t) < 0) lo = mid + 1; else hi = mid;
        }
        return Frac{t.y - h[lo].y, t.x - h[lo].x};
    }
public:
    explicit Fast(int64_t eps) : eps(eps) {}
    void clear() { lowhull_hi.clear(); uphull_lo.clear(); amax = Frac{-1, 0}; amin = Frac{1, 0}; n = 0; }
    size_t size() const { return n; }
    bool add(const Pt &p) {
        V phi{p.x, band_hi(p.y, eps)}, plo{p.x, band_lo(p.y, eps)};
        if (n > 0) {
            Frac lb = max_slope_to(lowhull_hi, plo);
            Frac ub = min_slope_to(uphull_lo, phi);
            if (frac_less(amax, lb)) amax = lb;
            if (frac_less(ub, amin)) amin = ub;
        }
        while (lowhull_hi.size() >= 2 && cross(lowhull_hi[lowhull_hi.size() - 2], lowhull_hi.back(), phi) <= 0) lowhull_hi.pop_back();
        lowhull_hi.push_back(phi);
        while (uphull_lo.size() >= 2 && cross(uphull_lo[uphull_lo.size() - 2], uphull_lo.back(), plo) >= 0) uphull_lo.pop_back();
        uphull_lo.push_back(plo);
        ++n;
        return !frac_less(amin, amax);
    }
    bool feasible() const { return !frac_less(amin, amax); }
};

/// Number of segments of an optimal (= greedy longest-prefix) segmentation of pts[b, e).
template<typename Oracle = Fast>
inline size_t optimal_count(const std::vector<Pt> &pts, size_t b, size_t e, int64_t eps, std::vector<size_t> *starts = nullptr) {
    if (b >= e) return 0;
    Oracle o(eps);
    size_t count = 1;
    if (starts) starts->push_back(b);
    for (size_t i = b; i < e; ++i) {
        if (!o.add(pts[i])) {
            o.clear();
            o.add(pts[i]);
            ++count;
            if (starts) starts->push_back(i);
        }
    }
    return count;
}

}
