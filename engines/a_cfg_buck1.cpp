#include "a_variants.hpp"
EA_REGISTER_BUCK(uint32_t, 4, 64, 0, float, f32)
EA_REGISTER_BUCK(uint32_t, 8, 100, 32, float, f32)
EA_REGISTER_BUCK(uint64_t, 1, 2, 0, double, f64)
EA_REGISTER_BUCK(uint64_t, 16, 550, 16, float, f32)
EA_REGISTER_BUCK(uint8_t, 2, 3, 0, float, f32)
EA_REGISTER_BUCK(uint16_t, 4, 4096, 0, float, f32)
