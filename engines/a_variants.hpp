// Engine A: traits for CompressedPGMIndex (C08), BucketingPGMIndex (C09), EliasFanoPGMIndex (C10), PGMIndex as a
// static class (C19/C20/C17 modes) and the C wrapper (C18).
#pragma once
#include "a_static.hpp"
#include "a_pgm.hpp"
#include "pgm/pgm_index.hpp"
#include "pgm/pgm_index_variants.hpp"
#include "cpgm.h"

namespace ea {

// ---- CompressedPGMIndex ------------------------------------------------------------------------------------------------
template<typename K_, size_t E, size_t R, typename F>
struct CompTraits : TraitsBase<K_, E> {
    using K = K_;
    static constexpr bool float_slopes = std::is_same_v<F, float>;
    using Index = pgm::CompressedPGMIndex<K, E, R, F>;
    static Index *build(const std::vector<K> &d) { return new Index(d.begin(), d.end()); }
    static Approx search(const Index &i, K q) { auto r = i.search(q); return Approx{r.pos, r.lo, r.hi}; }
    // segments_count() dereferences levels.back(), which does not exist for an index made of the root segment alone
    // (observation O2 in DESIGN.md 9; not part of the search contract)
    static size_t segments(const Index &i) { return i.height() > 1 ? i.segments_count() : 1; }
    static std::string preds(const std::vector<K> &d) { return (d.size() == 1 && R == 0) ? "n1-epsrec0," : ""; }

    /// Known finding KF-compressed-seam-clamp: when the bottom level is built in chunks, the last segment of a chunk and the
    /// first segment of the next may start fewer than 2*Epsilon+2 ranks apart; their raw intercepts are then not
    /// increasing and CompressedLevel's strictly-increasing clamp shifts the later segment up by up to 2*Epsilon.
    /// The harness recomputes the bottom segmentation under the same simulated machine (it is schedule-independent) and
    /// marks the key ranges of such segments; queries inside them fall under the finding.
    struct Aux {
        std::vector<std::pair<K, K>> affected; // [from, to] key ranges, sorted
        Aux(const Index &, const std::vector<K> &data) {
            sim::Env env = sim::g_env;
            if (chunks_for(env, data.size()) <= 1) return;
            using Canon = typename pgm::internal::OptimalPiecewiseLinearModel<K, size_t>::CanonicalSegment;
            std::vector<K> firsts;
            env.preempt_permille = 0;
            sim::begin_run(env);
            sim::g_record_points = true;
            pgm::internal::make_segmentation_par(data.size(), E, [&](size_t i) { return data[i]; }, [&](const Canon &cs) { firsts.push_back(cs.get_first_x()); });
            sim::g_record_points = false;
            std::vector<sim::PointRec> pts;
            for (auto &wr : sim::g_worker_records) pts.insert(pts.end(), wr.points.begin(), wr.points.end());
            sim::end_run();
            // rank (y) of the first point of each segment
            std::vector<size_t> ranks;
            size_t pi = 0;
            for (K f : firsts) {
                while (pi < pts.size() && pts[pi].x < (long double) f) ++pi;
                ranks.push_back(pi < pts.size() ? pts[pi].y : data.size());
            }
            for (size_t j = 1; j < firsts.size(); ++j)
                if (ranks[j] - ranks[j - 1] < 2 * E + 2) {
                    K to = j + 1 < firsts.size() ? firsts[j + 1] : std::numeric_limits<K>::max();
                    affected.emplace_back(firsts[j], to);
                }
        }
        bool check(const Index &, const std::vector<K> &, K, const Approx &, Outcome &, Stats &) { return true; }
        bool known_affected(K q) const {
            auto it = std::upper_bound(affected.begin(), affected.end(), q, [](K v, const std::pair<K, K> &r) { return v < r.first; });
            return it != affected.begin() && q <= std::prev(it)->second;
        }
        const char *known_pred() const { return "seam-clamp"; }
    };
};

// ---- BucketingPGMIndex -------------------------------------------------------------------------------------------------
/// number of bits needed to write x (0 for 0); the harness does not use the library's internal macro of the same meaning
constexpr unsigned bit_width_of(uint64_t x) { unsigned w = 0; while (x) { ++w; x >>= 1; } return w; }
template<typename K, size_t E, size_t TLS, uint8_t BITS, typename F>
struct BuckOpen : pgm::BucketingPGMIndex<K, E, TLS, BITS, F> {
    using Base = pgm::BucketingPGMIndex<K, E, TLS, BITS, F>;
    template<typename It> BuckOpen(It a, It b) : Base(a, b) {}
    BuckOpen() = default;
    size_t seg_total() const { return this->segments.size(); }
    K seg_key(size_t i) const { return this->segments[i].key; }
    size_t chosen(K q) const { return size_t(&*this->segment_for_key(q) - this->segments.data()); } // iterator or pointer, whichever the library returns
    size_t table_size() const { return this->top_level.size(); }
    size_t bucket_of(K q) const {
        if constexpr (Base::pow_two_top_level) return (q - this->first_key) >> (sizeof(K) * CHAR_BIT - bit_width_of(TLS) + 1);
        else return (q - this->first_key) / this->step;
    }
    K first() const { return this->first_key; }
    K last() const { return this->last_key; }
};

template<typename K_, size_t E, size_t TLS, uint8_t BITS, typename F>
struct BuckTraits : TraitsBase<K_, E> {
    using K = K_;
    using Index = BuckOpen<K, E, TLS, BITS, F>;
    static Index *build(const std::vector<K> &d) { return new Index(d.begin(), d.end()); }
    static Approx search(const Index &i, K q) { auto r = i.search(q); return Approx{r.pos, r.lo, r.hi}; }
    static size_t segments(const Index &i) { return i.segments_count(); }
    /// Non-power-of-two tables divide by step = ceil(span / TopLevelSize): some runs rescale the keys so that the step is a
    /// number with very few set bits anywhere in the word (2^a, 2^a + 2^b, 2^a + 2^b + 1, 2^a - 1), where shifts, masks
    /// and narrow builtins on the step go wrong.
    static void post_keys(PlanText &p, Rng &r) {
        if constexpr (sizeof(K) == 8 && std::is_integral_v<K> && (TLS & (TLS - 1)) != 0) {
            if (p.keys.size() < 2 || !r.chance(250)) return;
            gen::KeyMap<K> km;
            using UK = std::make_unsigned_t<K>;
            auto pos_of = [](long double x) { return uint64_t(UK(UK((K) x) - UK(std::numeric_limits<K>::lowest()))); };
            uint64_t p0 = pos_of(p.keys.front()), span = pos_of(p.keys.back()) - p0;
            if (span == 0) return;
            unsigned top = 62; { size_t t = TLS; while (t > 1) { t >>= 1; --top; } } // TLS * step stays below 2^63
            unsigned a = (unsigned) r.range(1, top - 1);
            uint64_t step = uint64_t(1) << a;
            switch (r.below(4)) { case 0: break; case 1: step |= uint64_t(1) << r.below(a); break; case 2: step |= (uint64_t(1) << r.below(a)) | 1; break; default: step -= 1; }
            if (step < 2) step = 2;
            unsigned __int128 want = (unsigned __int128) step * TLS - r.below(TLS); // ceil(want / TLS) == step
            if (want > km.U) return;
            uint64_t nspan = (uint64_t) want, base = r.range(0, std::min<uint64_t>(km.U - nspan, 1000000));
            for (auto &x : p.keys) {
                uint64_t u = pos_of(x) - p0;
                x = (long double) km.at(base + (uint64_t) ((unsigned __int128) u * nspan / span));
            }
            p.set("motifs", p.get("motifs") + "+sparsestep");
        }
    }
    // a fixed cell width too small for the segment count is outside the property's domain ("fixed widths large enough")
    static bool out_of_domain(const std::exception &e) { return BITS != 0 && std::string(e.what()).find("TopLevelBitSize must be") != std::string::npos; }
    struct Aux : AuxBase<K_> {
        Aux(const Index &, const std::vector<K> &) {}
        bool check(const Index &ix, const std::vector<K> &data, K q, const Approx &r, Outcome &out, Stats &st) {
            const size_t n = data.size();
            std::string focus = "Q " + key_text(q);
            if (q < data.front()) {
                if (!(r.lo == 0 && r.hi == 0)) { out.fail("below-first-not-empty", "key below the first key: range [" + std::to_string(r.lo) + "," + std::to_string(r.hi) + ") is not the empty range at 0", focus); return false; }
                st.inc("reach.below_first");
                return true;
            }
            if (q > data.back()) {
                if (!(r.lo == n && r.hi == n)) { out.fail("above-last-not-empty", "key above the last key: range [" + std::to_string(r.lo) + "," + std::to_string(r.hi) + ") is not the empty range at n", focus); return false; }
                st.inc("reach.above_last");
                return true;
            }
            // the bucket's slice must contain the rightmost segment starting at or before q
            size_t real = ix.seg_total() - 1; // without the sentinel
            size_t truth = 0;
            { size_t lo = 0, hi = real; while (lo < hi) { size_t mid = (lo + hi) / 2; if (ix.seg_key(mid) <= q) lo = mid + 1; else hi = mid; } truth = lo ? lo - 1 : 0; }
            size_t j = ix.bucket_of(q);
            if (j + 1 >= ix.table_size()) { out.fail("bucket-out-of-table", "bucket " + std::to_string(j) + " + 1 is outside the top-level table of " + std::to_string(ix.table_size()) + " cells", focus); return false; }
            size_t got = ix.chosen(q);
            if (got != truth) { out.fail("bucket-slice-misses-segment", "bucket " + std::to_string(j) + " selects segment " + std::to_string(got) + ", the rightmost segment starting at or before q=" + key_text(q) + " is " + std::to_string(truth), focus); return false; }
            if (j + 2 == ix.table_size()) st.inc("reach.last_bucket");
            return true;
        }
    };
};

// ---- EliasFanoPGMIndex -------------------------------------------------------------------------------------------------
template<typename K, size_t E, typename F>
struct EFOpen : pgm::EliasFanoPGMIndex<K, E, F> {
    using Base = pgm::EliasFanoPGMIndex<K, E, F>;
    template<typename It> EFOpen(It a, It b) : Base(a, b) {}
    EFOpen() = default;
    size_t seg_total() const { return this->segments.size(); }
    const sdsl::sd_vector<> &code() const { return this->ef; }
    K first() const { return this->first_key; }
    size_t estimate(size_t seg, K origin_rel, K k) const {
        return std::min<size_t>(this->segments[seg](K(origin_rel + this->first_key), k), (size_t) this->segments[seg + 1].intercept);
    }
};

template<typename K_, size_t E, typename F>
struct EFTraits : TraitsBase<K_, E> {
    using K = K_;
    using Index = EFOpen<K, E, F>;
    static constexpr bool allow_16m = true;
    static constexpr bool float_slopes = std::is_same_v<F, float>;
    static Index *build(const std::vector<K> &d) { return new Index(d.begin(), d.end()); }
    static Approx search(const Index &i, K q) { auto r = i.search(q); return Approx{r.pos, r.lo, r.hi}; }
    static size_t segments(const Index &i) { return i.segments_count(); }
    static std::string preds(const std::vector<K> &d) { return ""; }
    struct Aux : AuxBase<K_> {
        std::vector<uint64_t> keys; // segment keys relative to first_key, decoded from the Elias-Fano code
        Aux(const Index &ix, const std::vector<K> &) {
            const auto &ef = ix.code();
            sdsl::sd_vector<>::select_1_type sel(&ef);
            size_t m = ef.low.size(); // number of coded segment keys (segments starting at the sentinel are not coded)
            keys.reserve(m);
            for (size_t i = 0; i < m; ++i) keys.push_back(sel(i + 1));
        }
        bool check(const Index &ix, const std::vector<K> &data, K q, const Approx &r, Outcome &out, Stats &st) {
            K k = std::max(ix.first(), q);
            uint64_t rel = uint64_t(K(k - ix.first()));
            size_t t = size_t(std::upper_bound(keys.begin(), keys.end(), rel) - keys.begin());
            t = t ? t - 1 : 0;
            size_t expect = ix.estimate(t, K(keys[t]), k);
            if (rel > keys.back()) st.inc("reach.beyond_last_segment_key");
            if (expect != r.pos) {
                out.fail("predecessor-wrong", "pos=" + std::to_string(r.pos) + " differs from the estimate " + std::to_string(expect) + " of the rightmost segment (" + std::to_string(t) + ") starting at or before q=" + key_text(q), "Q " + key_text(q));
                return false;
            }
            return true;
        }
    };
};

// ---- C wrapper (static index) --------------------------------------------------------------------------------------------
#define EA_CWRAP(T, CT)                                                                                                   \
    struct CIdx_##T {                                                                                                     \
        pgm_index_##T##_t *h;                                                                                             \
        size_t eps;                                                                                                       \
        CIdx_##T(const CT *a, size_t n, size_t e) : h(pgm_index_##T##_create(a, n, e)), eps(e) {}                         \
        CIdx_##T(const CIdx_##T &) = delete;                                                                              \
        CIdx_##T &operator=(const CIdx_##T &) = delete;                                                                   \
        ~CIdx_##T() { if (h) pgm_index_##T##_destroy(h); }                                                                \
    };                                                                                                                    \
    struct CwrapTraits_##T : TraitsBase<CT, 1> {                                                                          \
        using K = CT;                                                                                                     \
        using Index = CIdx_##T;                                                                                           \
        static constexpr unsigned clauses = CL_RANGE | CL_LO_LE_POS | CL_FIRST_OCC | CL_LOWER_BOUND;                      \
        static thread_local size_t cur_eps;                                                                               \
        static size_t gen_eps(PlanText &p, Rng &cfg) {                                                                    \
            static const size_t menu[] = {1, 1, 2, 3, 4, 8, 16, 64, 128, 1024, 4096};                                     \
            size_t e = cfg.chance(200) ? (size_t) cfg.range(1, 4096) : menu[cfg.below(sizeof menu / sizeof *menu)];      \
            p.set("rt_eps", (uint64_t) e);                                                                                \
            return e;                                                                                                     \
        }                                                                                                                 \
        static size_t eps_of(const PlanText &p) { return (size_t) p.get_u("rt_eps", 1); }                                 \
        static Index *build(const std::vector<K> &d) {                                                                    \
            auto *ix = new Index(d.data(), d.size(), cur_eps);                                                            \
            if (!ix->h) { delete ix; throw std::invalid_argument("create returned NULL"); }                               \
            return ix;                                                                                                    \
        }                                                                                                                 \
        static Approx search(const Index &i, K q) { auto r = pgm_index_##T##_search(i.h, q); return Approx{r.pos, r.lo, r.hi}; } \
        static size_t segments(const Index &i) { return pgm_index_##T##_size_in_bytes(i.h) / 16; }                        \
    };                                                                                                                    \
    inline thread_local size_t CwrapTraits_##T::cur_eps = 1;

EA_CWRAP(int32, int32_t)
EA_CWRAP(int64, int64_t)
EA_CWRAP(uint32, uint32_t)
EA_CWRAP(uint64, uint64_t)

/// The C wrapper takes its epsilon at run time: a thin class around StaticClass that sets it from the plan first.
template<typename Tr>
struct CwrapClass {
    static PlanText gen(const CfgEntry &ce, const GenCtx &g, Stats &st) { return StaticClass<Tr>::gen(ce, g, st); }
    static Outcome run(const CfgEntry &ce, const PlanText &p, const RunCtx &rc, Stats &st) {
        Tr::cur_eps = (size_t) p.get_u("rt_eps", 1);
        st.mark("rt_eps", Tr::cur_eps);
        return StaticClass<Tr>::run(ce, p, rc, st);
    }
};


#define EA_CAT2(a, b) a##b
#define EA_CAT(a, b) EA_CAT2(a, b)
#define EA_REGISTER_COMP(K, E, R, F, FN)                                                                                  \
    static ::ea::Registrar EA_CAT(reg_comp_, __COUNTER__)(::ea::CfgEntry{std::string("comp:") + ::ea::key_name<K>() + ":e" #E ":r" #R ":" #FN, "comp", E, R, false, \
        &::ea::StaticClass<::ea::CompTraits<K, E, R, F>>::gen, &::ea::StaticClass<::ea::CompTraits<K, E, R, F>>::run});
#define EA_REGISTER_BUCK(K, E, TLS, BITS, F, FN)                                                                          \
    static ::ea::Registrar EA_CAT(reg_buck_, __COUNTER__)(::ea::CfgEntry{std::string("buck:") + ::ea::key_name<K>() + ":e" #E ":t" #TLS ":b" #BITS ":" #FN, "buck", E, 0, false, \
        &::ea::StaticClass<::ea::BuckTraits<K, E, TLS, BITS, F>>::gen, &::ea::StaticClass<::ea::BuckTraits<K, E, TLS, BITS, F>>::run});
#define EA_REGISTER_EF(K, E, F, FN)                                                                                       \
    static ::ea::Registrar EA_CAT(reg_ef_, __COUNTER__)(::ea::CfgEntry{std::string("ef:") + ::ea::key_name<K>() + ":e" #E ":" #FN, "ef", E, 0, false, \
        &::ea::StaticClass<::ea::EFTraits<K, E, F>>::gen, &::ea::StaticClass<::ea::EFTraits<K, E, F>>::run});
#define EA_REGISTER_CWRAP(T)                                                                                              \
    static ::ea::Registrar EA_CAT(reg_cwrap_, __COUNTER__)(::ea::CfgEntry{"cwrap:" #T, "cwrap", 1, 4, false,              \
        &::ea::CwrapClass<::ea::CwrapTraits_##T>::gen, &::ea::CwrapClass<::ea::CwrapTraits_##T>::run});

}
