// Engine A, class "seg": the epsilon-PLA builder driven directly (make_segmentation / make_segmentation_par) — C03, C04.
#pragma once
#include "a_common.hpp"
#include "../oracle/pla_exact.hpp"
#include "pgm/piecewise_linear_model.hpp"

namespace ea {

template<typename K>
struct SegClass {
    using Model = pgm::internal::OptimalPiecewiseLinearModel<K, size_t>;
    using Canon = typename Model::CanonicalSegment;

    static PlanText gen(const CfgEntry &ce, const GenCtx &g, Stats &st) {
        PlanText p;
        Rng cfg = sim::stream(g.run_seed, "cfg"), work = sim::stream(g.run_seed, "work"), env = sim::stream(g.run_seed, "env");
        p.set("engine", "buildsim");
        p.set("prop", g.prop);
        p.set("cfg", ce.name);
        static const size_t eps_menu[] = {0, 0, 1, 1, 2, 3, 4, 8, 16, 64, 128, 1024};
        size_t eps = cfg.chance(150) ? (size_t) cfg.range(0, 1024) : eps_menu[cfg.below(sizeof eps_menu / sizeof *eps_menu)];
        p.set("rt_eps", (uint64_t) eps);
        bool large;
        size_t n = draw_n(cfg, std::max<size_t>(eps, 1), g, large, 20);
        draw_env(p, env, large, g.tsan);
        p.set("mode", cfg.chance(large ? 950 : 700) ? "par" : "seq");
        sim::Env e = env_from_plan(p);
        std::string sig;
        if (scale_slot(g) && sizeof(K) == 8 && std::is_integral_v<K> && g.prop != "C20") {
            // scale slot of the builder: hulls beyond the 2^16 entries it reserves (smooth convex sequences, large epsilon)
            static const size_t big_eps[] = {64, 128, 1024, 1024, 256};
            eps = big_eps[cfg.below(5)];
            p.set("rt_eps", (uint64_t) eps);
            size_t nn = (size_t) cfg.range(scale_cheap_only ? 90000 : 110000, scale_cheap_only ? 150000 : 320000);
            bool grow = cfg.coin();
            uint64_t gap0 = (uint64_t(1) << cfg.range(26, 33)) + cfg.range(0, uint64_t(1) << 20);
            p.set("recipe", "convex " + std::to_string(nn) + " " + std::to_string(work.next() >> 1) + " " + std::to_string(gap0) + " " + std::to_string(cfg.chance(700) ? 1 : cfg.range(1, 4)) + " " + (grow ? "1" : "0"));
            p.set("recipe_start", cfg.coin() ? cfg.range(0, 100000) : (uint64_t(1) << cfg.range(30, 60)) + cfg.range(0, 100000));
            p.set("procs", 1); p.set("maxthreads", 1); p.set("mode", cfg.coin() ? "par" : "seq");
            p.set("scale", 1);
            sig = "scale-convex+";
        } else
        sig = gen_keys_into<K>(p, n, std::max<size_t>(eps, 1), chunks_for(e, n), cfg, work);
        if constexpr (std::is_floating_point_v<K>) {
            // wide magnitudes (builder only): a few keys close to the ends of the finite range next to ordinary data, so that
            // key differences times rank differences need the range of the builder's long double arithmetic
            if (cfg.chance(300) && p.keys.size() >= 3) {
                static const long double f[] = {0.95L, 0.5L, 1e-1L, 1e-3L};
                long double big = (long double) std::numeric_limits<K>::max() * f[cfg.below(4)];
                if (cfg.coin()) p.keys.front() = -big;
                if (cfg.coin()) p.keys.back() = big;
                if (cfg.chance(300) && p.keys.size() >= 5) { p.keys[1] = -big / 2; p.keys[p.keys.size() - 2] = big / 2; }
                for (size_t i = 1; i < p.keys.size(); ++i) if (p.keys[i] < p.keys[i - 1]) p.keys[i] = p.keys[i - 1];
                sig += "wide+";
            }
        }
        p.set("motifs", sig + "eps" + std::to_string(eps));
        p.set("sched2", large && cfg.chance(300) ? (env.next() >> 1) | 1 : 0);
        if (g.prop == "C20") { // the invalid argument is the injected fault: its position inside the segment is drawn here
            p.set("bad_after", cfg.range(1, std::max<size_t>(1, std::min<size_t>(n, 40))));
            p.set("bad_kind", cfg.coin() ? "equal" : "smaller");
        }
        (void) st;
        return p;
    }

    /// C20 for the builder: a key that does not exceed its predecessor inside a segment -> std::logic_error; a negative
    /// epsilon (signed rank type) -> std::invalid_argument.
    static Outcome run_rejections(const PlanText &p, Stats &st) {
        Outcome out;
        Trace tr;
        std::vector<K> data = keys_from_plan<K>(p);
        // strictly increasing prefix of the distinct keys
        data.erase(std::unique(data.begin(), data.end()), data.end());
        size_t eps = (size_t) p.get_u("rt_eps", 1);
        size_t after = std::min<size_t>((size_t) p.get_u("bad_after", 1), data.size());
        if (after == 0) { out.trace_hash = tr.h; return out; }
        pgm::internal::OptimalPiecewiseLinearModel<K, size_t> m(eps);
        size_t in_segment = 0;
        for (size_t i = 0; i < after; ++i) { if (!m.add_point(data[i], i)) { m.add_point(data[i], i); in_segment = 0; } ++in_segment; }
        K bad = p.get("bad_kind") == "equal" ? data[after - 1] : (has_prev(data[after - 1]) ? prev_of(data[after - 1]) : data[after - 1]);
        std::string got = "no exception";
        st.inc("fault.invalid_op");
        try { m.add_point(bad, after); }
        catch (const std::logic_error &) { got = "logic_error"; }
        catch (const std::exception &e) { got = std::string("other exception: ") + e.what(); }
        tr.add_str(got);
        if (got != "logic_error") out.fail("non-increasing-key-not-rejected", "add_point(" + key_text(bad) + ") after " + std::to_string(in_segment) + " points of a segment ending at " + key_text(data[after - 1]) + ": " + got + " instead of std::logic_error");
        std::string got2 = "no exception";
        try { pgm::internal::OptimalPiecewiseLinearModel<K, int64_t> neg(-1 - (int64_t) (eps % 7)); (void) neg; }
        catch (const std::invalid_argument &) { got2 = "invalid_argument"; }
        catch (const std::exception &e) { got2 = std::string("other exception: ") + e.what(); }
        st.inc("fault.invalid_op");
        if (out.ok && got2 != "invalid_argument") out.fail("negative-epsilon-not-rejected", "OptimalPiecewiseLinearModel<K, int64_t>(negative epsilon): " + got2);
        st.mark("nontrivial", sim::mix(in_segment, sim::hash_str(p.get("bad_kind").c_str()) ^ eps));
        out.trace_hash = tr.h;
        return out;
    }

    struct Built {
        std::vector<Canon> segs;
        std::vector<sim::PointRec> points; // all points handed to the builder, in chunk order
        size_t returned = 0;
        int team = 1;
    };

    static Built build(const std::vector<K> &data, size_t eps, bool par, const sim::Env &env) {
        Built b;
        sim::begin_run(env);
        sim::g_record_points = true;
        auto in = [&](size_t i) { return data[i]; };
        auto out = [&](const Canon &cs) { b.segs.push_back(cs); };
        try {
            if (par) b.returned = pgm::internal::make_segmentation_par(data.size(), eps, in, out);
            else b.returned = pgm::internal::make_segmentation(data.size(), eps, in, out);
        } catch (...) {
            sim::g_record_points = false;
            sim::end_run();
            throw;
        }
        sim::g_record_points = false;
        b.points = sim::g_main_points;
        // worker records are created in (region, tid) order; a thread's static slice is a contiguous range of chunks
        for (auto &wr : sim::g_worker_records)
            b.points.insert(b.points.end(), wr.points.begin(), wr.points.end());
        b.team = (int) sim::g_env_stats.max_team;
        sim::end_run();
        return b;
    }

    static Outcome run(const CfgEntry &ce, const PlanText &p, const RunCtx &rc, Stats &st) {
        if (rc.prop == "C20") return run_rejections(p, st);
        Outcome out;
        Trace tr;
        std::vector<K> data = keys_from_plan<K>(p);
        const size_t n = data.size();
        out.preds = common_preds(data);
        if (n == 0) { out.trace_hash = tr.h; return out; }
        const size_t eps = (size_t) p.get_u("rt_eps", 1);
        const bool par = p.get("mode", "par") == "par";
        sim::Env env = env_from_plan(p);
        const int c = par ? chunks_for(env, n) : 1;

        Built b;
        try {
            b = build(data, eps, par, env);
        } catch (const std::exception &e) {
            out.fail("builder-exception", std::string("segmentation threw on in-domain data: ") + e.what());
            out.trace_hash = tr.h;
            return out;
        }
        note_env_stats(st);
        bool sim_active = c > 1 && b.team >= 2;
        if (sim_active) st.inc("sim_active_runs");
        if (c > 1) st.mark("teams", sim::mix(c, b.team));
        tr.add(sim_stat_decision_hash());
        for (auto &pt : b.points) { tr.add_ld(pt.x); tr.add(pt.y); }
        for (auto &s : b.segs) tr.add_ld((long double) s.get_first_x());

        uint64_t sched2 = p.get_u("sched2", 0);
        if (sched2 && c > 1) {
            sim::Env env2 = env;
            env2.sched_seed = sched2;
            env2.preempt_permille = env.preempt_permille ? env.preempt_permille : 200;
            try {
                Built b2 = build(data, eps, par, env2);
                note_env_stats(st);
                st.inc("schedule_pairs_compared");
                bool same = b2.segs.size() == b.segs.size() && b2.points.size() == b.points.size() && b2.returned == b.returned;
                for (size_t i = 0; same && i < b.segs.size(); ++i) {
                    auto a1 = b.segs[i].get_floating_point_segment(b.segs[i].get_first_x());
                    auto a2 = b2.segs[i].get_floating_point_segment(b2.segs[i].get_first_x());
                    same = b.segs[i].get_first_x() == b2.segs[i].get_first_x() && a1.first == a2.first && a1.second == a2.second;
                }
                if (!same) out.fail("schedule-dependence", "two schedules of the same team produced different segmentations");
            } catch (const std::exception &e) {
                out.fail("builder-exception", std::string("segmentation threw under the second schedule: ") + e.what());
            }
        }
        if (!out.ok) { out.trace_hash = tr.h; return out; }

        const auto &P = b.points;
        const auto &S = b.segs;
        st.mark("tuples", sim::mix(sim::hash_str(ce.name.c_str()), sim::mix(sim::hash_str(p.get("motifs").c_str()), (uint64_t) c * 64 + b.team)));
        auto xs = [&](size_t i) { return sim::ld_to_text(P[i].x); };

        // ---- structure shared by C03 and C04 -------------------------------------------------------------------------
        if (S.empty() || P.empty()) { out.fail("no-output", "no segment or no point for n >= 1"); out.trace_hash = tr.h; return out; }
        if (b.returned != S.size()) { out.fail("count-mismatch", "returned segment count " + std::to_string(b.returned) + " != emitted " + std::to_string(S.size())); }
        for (size_t i = 1; out.ok && i < P.size(); ++i)
            if (!(P[i].x > P[i - 1].x) || !(P[i].y > P[i - 1].y))
                out.fail("points-not-increasing", "points handed to the builder are not strictly increasing at point " + std::to_string(i) + " x=" + xs(i) + " y=" + std::to_string(P[i].y) + " (a point lost or duplicated at a seam)");
        for (size_t j = 1; out.ok && j < S.size(); ++j)
            if (!(S[j].get_first_x() > S[j - 1].get_first_x()))
                out.fail("segments-not-increasing", "segment first keys not strictly increasing at segment " + std::to_string(j));
        // every distinct key at its first-occurrence rank is among the points
        if (out.ok) {
            size_t pi = 0;
            for (size_t i = 0; i < n; ++i) {
                if (i > 0 && data[i] == data[i - 1]) continue;
                while (pi < P.size() && P[pi].x < (long double) data[i]) ++pi;
                if (pi >= P.size() || P[pi].x != (long double) data[i] || P[pi].y != i) {
                    out.fail("key-point-missing", "distinct key " + key_text(data[i]) + " at first-occurrence rank " + std::to_string(i) + " was not handed to the builder");
                    break;
                }
            }
        }
        // assign points to segments: segment j covers x in [first_j, first_{j+1})
        std::vector<size_t> seg_start(S.size() + 1, P.size()); // index of the first point of each segment
        if (out.ok) {
            size_t pi = 0;
            for (size_t j = 0; j < S.size(); ++j) {
                while (pi < P.size() && P[pi].x < (long double) S[j].get_first_x()) ++pi;
                seg_start[j] = pi;
                if (pi >= P.size() || P[pi].x != (long double) S[j].get_first_x()) {
                    out.fail("segment-start-not-a-point", "segment " + std::to_string(j) + " does not start at a point handed to the builder");
                    break;
                }
            }
            if (out.ok && seg_start[0] != 0) out.fail("point-uncovered", "the first point precedes the first segment");
        }
        if (!out.ok) { out.trace_hash = tr.h; return out; }

        const std::string &prop = rc.prop;
        if (prop != "C04") {
            // ---- C03: every point within eps (+ intercept rounding) of its segment's reported line --------------------
            const long double tol = (std::is_floating_point_v<K> ? 1.0L : 0.5L) + 1e-9L;
            long double worst = 0;
            for (size_t j = 0; j < S.size() && out.ok; ++j) {
                auto [slope, icpt] = S[j].get_floating_point_segment(S[j].get_first_x());
                long double first = (long double) S[j].get_first_x();
                for (size_t i = seg_start[j]; i < seg_start[j + 1]; ++i) {
                    long double pred;
                    if constexpr (std::is_integral_v<K>) {
                        // the key difference is formed exactly in 128-bit integers
                        __int128 dx = (__int128) P[i].x - (__int128) first;
                        pred = slope * (long double) dx + (long double) icpt;
                    } else pred = slope * (P[i].x - first) + (long double) icpt;
                    long double err = std::fabs(pred - (long double) P[i].y);
                    if (err > worst) worst = err;
                    if (err > (long double) eps + tol) {
                        out.fail("point-outside-band", "segment " + std::to_string(j) + " (first=" + sim::ld_to_text(first) + ") predicts " + std::to_string((double) pred) + " for point x=" + xs(i) +
                                 " y=" + std::to_string(P[i].y) + ": error " + std::to_string((double) err) + " > eps " + std::to_string(eps) + " + rounding");
                        break;
                    }
                }
            }
            st.max("max_error_x1000_minus_eps", (uint64_t) std::max<long double>(0, (worst - eps) * 1000));
            st.inc("points_checked", P.size());
        }
        if (prop != "C03") {
            if constexpr (std::is_integral_v<K>) {
                // ---- C04: maximal segments, minimal count -------------------------------------------------------------
                // chunk starts, replicated from the input alone
                std::vector<size_t> chunk_rank;
                chunk_rank.push_back(0);
                if (c > 1) {
                    size_t chunk = n / (size_t) c;
                    for (int i = 1; i < c; ++i) {
                        size_t first = (size_t) i * chunk, last = i == c - 1 ? n : first + chunk;
                        for (; first < last; ++first) if (data[first] != data[first - 1]) break;
                        if (first == last) { st.inc("reach.whole_chunk_skipped"); continue; }
                        chunk_rank.push_back(first);
                    }
                }
                std::vector<pla::Pt> pts(P.size());
                for (size_t i = 0; i < P.size(); ++i) pts[i] = pla::Pt{(pla::i128) P[i].x, (int64_t) P[i].y};
                // chunk boundaries as point indices
                std::vector<size_t> cb;
                {
                    size_t pi = 0;
                    for (size_t r : chunk_rank) {
                        while (pi < P.size() && P[pi].y < r) ++pi;
                        if (pi >= P.size() || P[pi].y != r) { out.fail("chunk-start-missing", "no point at chunk start rank " + std::to_string(r)); break; }
                        cb.push_back(pi);
                    }
                    cb.push_back(P.size());
                }
                std::vector<size_t> lib_starts(seg_start.begin(), seg_start.end() - 1);
                std::vector<size_t> opt_starts;
                for (size_t k = 0; out.ok && k + 1 < cb.size(); ++k) {
                    std::vector<size_t> st_fast;
                    pla::optimal_count<pla::Fast>(pts, cb[k], cb[k + 1], (int64_t) eps, &st_fast);
                    if (cb[k + 1] - cb[k] <= 1500) {
                        std::vector<size_t> st_naive;
                        pla::optimal_count<pla::Naive>(pts, cb[k], cb[k + 1], (int64_t) eps, &st_naive);
                        st.inc("oracle_cross_checks");
                        if (st_naive != st_fast) { out.fail("oracle-disagreement", "internal: fast and naive feasibility oracles disagree (harness defect)"); break; }
                    }
                    opt_starts.insert(opt_starts.end(), st_fast.begin(), st_fast.end());
                }
                if (out.ok && lib_starts != opt_starts) {
                    // find the first difference and say which way it goes
                    size_t j = 0;
                    while (j < lib_starts.size() && j < opt_starts.size() && lib_starts[j] == opt_starts[j]) ++j;
                    std::string d = "segment " + std::to_string(j ? j - 1 : 0) + ": ";
                    if (j >= lib_starts.size()) d += "builder emitted fewer segments than exist feasible cuts (a segment is infeasible)";
                    else if (j >= opt_starts.size() || lib_starts[j] < opt_starts[j])
                        d += "not maximal: the builder cut at point " + std::to_string(lib_starts[j]) + " (x=" + xs(lib_starts[j]) + ") but a line within eps=" + std::to_string(eps) +
                             " exists up to point " + std::to_string(j < opt_starts.size() ? opt_starts[j] : P.size());
                    else d += "infeasible: no line within eps=" + std::to_string(eps) + " covers its points up to point " + std::to_string(lib_starts[j]) + " (exact test cuts at " + std::to_string(opt_starts[j]) + ")";
                    out.fail(j < lib_starts.size() && (j >= opt_starts.size() || lib_starts[j] < opt_starts[j]) ? "segment-not-maximal" : "segment-infeasible", d);
                }
                if (out.ok) {
                    size_t opt_all = pla::optimal_count<pla::Fast>(pts, 0, pts.size(), (int64_t) eps);
                    size_t chunks_used = cb.size() - 1;
                    if (chunks_used == 1 && S.size() != opt_all) out.fail("count-not-minimal", "sequential build used " + std::to_string(S.size()) + " segments, optimum is " + std::to_string(opt_all));
                    if (S.size() > opt_all + chunks_used - 1) out.fail("count-above-chunk-bound", std::to_string(S.size()) + " segments > optimum " + std::to_string(opt_all) + " + chunks-1 (" + std::to_string(chunks_used - 1) + ")");
                    if (S.size() > n / (2 * eps + 1) + (size_t) c + 1) out.fail("count-above-density-bound", std::to_string(S.size()) + " segments > floor(n/(2eps+1)) + c + 1");
                    // consecutive segment starts within a chunk are more than 2*eps ranks apart
                    size_t k = 0;
                    for (size_t j = 1; j < S.size() && out.ok; ++j) {
                        while (k + 1 < cb.size() && cb[k + 1] <= seg_start[j]) ++k;
                        bool same_chunk = seg_start[j - 1] >= cb[k];
                        if (same_chunk && P[seg_start[j]].y - P[seg_start[j - 1]].y <= 2 * eps)
                            out.fail("starts-too-close", "segments " + std::to_string(j - 1) + " and " + std::to_string(j) + " start " + std::to_string(P[seg_start[j]].y - P[seg_start[j - 1]].y) + " ranks apart (<= 2*eps)");
                    }
                    st.inc("segments_checked", S.size());
                    st.max("max_segment_points", [&] { size_t m = 0; for (size_t j = 0; j < S.size(); ++j) m = std::max(m, seg_start[j + 1] - seg_start[j]); return m; }());
                }
            }
        }
        if (S.size() >= 2) st.inc("nontrivial_runs");
        if (sim_active) st.mark("nontrivial", tr.h); else if (S.size() >= 2) st.mark("nontrivial", sim::mix(sim::hash_str(ce.name.c_str()), sim::hash_str(p.get("motifs").c_str()) ^ n));
        if (st.samples.size() < 3 && (sim_active || st.counters["runs"] % 50 == 7)) st.samples.push_back(abbreviate_plan(p) + " eps=" + std::to_string(eps) + " mode=" + p.get("mode") + " segments=" + std::to_string(S.size()));
        out.trace_hash = tr.h;
        return out;
    }
};

/// C04 for one level of a recursive index as built by PGMIndex::build: `pts` are the points hook H1 recorded for the
/// level, `seg_keys` the first keys of the level's segments (without the sentinel), `m` the number of keys the level was
/// built on, `c` the chunk count the simulator chose, key_at(i) the i-th input key of the level.
/// The cut points of every chunk must be those of the exact greedy oracle; one appended closing segment is allowed.
template<typename KeyAt>
bool check_level_maximality(const std::vector<sim::PointRec> &pts, const std::vector<long double> &seg_keys, size_t m, int c, size_t eps,
                            KeyAt key_at, long double sentinel, const std::string &ctx, Outcome &out, Stats &st) {
    if (pts.empty()) { out.fail("no-output", ctx + ": no point recorded"); return false; }
    std::vector<size_t> chunk_rank{0};
    if (c > 1) {
        size_t chunk = m / (size_t) c;
        for (int i = 1; i < c; ++i) {
            size_t first = (size_t) i * chunk, last = i == c - 1 ? m : first + chunk;
            for (; first < last; ++first) if (key_at(first) != key_at(first - 1)) break;
            if (first == last) continue;
            chunk_rank.push_back(first);
        }
    }
    std::vector<pla::Pt> P(pts.size());
    for (size_t i = 0; i < pts.size(); ++i) P[i] = pla::Pt{(pla::i128) pts[i].x, (int64_t) pts[i].y};
    for (size_t i = 1; i < P.size(); ++i) if (!(P[i].x > P[i - 1].x)) { out.fail("points-not-increasing", ctx + ": points not strictly increasing at " + std::to_string(i)); return false; }
    std::vector<size_t> cb;
    size_t pi = 0;
    for (size_t r : chunk_rank) {
        while (pi < P.size() && (size_t) P[pi].y < r) ++pi;
        if (pi >= P.size() || (size_t) P[pi].y != r) { out.fail("chunk-start-missing", ctx + ": no point at chunk start rank " + std::to_string(r)); return false; }
        cb.push_back(pi);
    }
    cb.push_back(P.size());
    std::vector<long double> opt_keys;
    for (size_t k = 0; k + 1 < cb.size(); ++k) {
        std::vector<size_t> starts;
        pla::optimal_count<pla::Fast>(P, cb[k], cb[k + 1], (int64_t) eps, &starts);
        if (cb[k + 1] - cb[k] <= 600) {
            std::vector<size_t> naive;
            pla::optimal_count<pla::Naive>(P, cb[k], cb[k + 1], (int64_t) eps, &naive);
            st.inc("oracle_cross_checks");
            if (naive != starts) { out.fail("oracle-disagreement", "internal: fast and naive feasibility oracles disagree (harness defect)"); return false; }
        }
        for (size_t sidx : starts) opt_keys.push_back(pts[sidx].x);
    }
    // a segment starting at the sentinel (closing point of data ending with max-1) doubles as the level's terminator
    if (!opt_keys.empty() && opt_keys.back() == sentinel) { opt_keys.pop_back(); st.inc("reach.segment_at_sentinel"); }
    std::vector<long double> lib = seg_keys;
    if (lib.size() == opt_keys.size() + 1) lib.pop_back(); // the appended closing segment (last key + 1 -> m)
    if (lib != opt_keys) {
        size_t j = 0;
        while (j < lib.size() && j < opt_keys.size() && lib[j] == opt_keys[j]) ++j;
        bool early = j < lib.size() && (j >= opt_keys.size() || lib[j] < opt_keys[j]);
        out.fail(early ? "segment-not-maximal" : "segment-infeasible",
                 ctx + ": segment " + std::to_string(j) + " starts at key " + (j < lib.size() ? sim::ld_to_text(lib[j]) : std::string("(none)")) + ", the exact greedy segmentation with eps=" + std::to_string(eps) +
                 " starts it at " + (j < opt_keys.size() ? sim::ld_to_text(opt_keys[j]) : std::string("(none)")) + " (" + std::to_string(lib.size()) + " vs " + std::to_string(opt_keys.size()) + " segments)");
        return false;
    }
    st.inc("levels_checked");
    st.inc("segments_checked", lib.size());
    return true;
}

#define EA_REGISTER_SEG(K)                                                                                                \
    static ::ea::Registrar reg_seg_##K(::ea::CfgEntry{std::string("seg:") + ::ea::key_name<K>(), "seg", 0, 0,           \
                                                     std::is_floating_point_v<K>, &::ea::SegClass<K>::gen, &::ea::SegClass<K>::run});

}
