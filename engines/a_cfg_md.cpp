#include "a_md.hpp"
#ifdef MORTON_ND_BMI2_ENABLED
EA_REGISTER_MD(2, uint32_t, u32, 16)
EA_REGISTER_MD(3, uint32_t, u32, 4)
EA_REGISTER_MD(2, uint64_t, u64, 1)
EA_REGISTER_MD(3, uint64_t, u64, 64)
EA_REGISTER_MD(4, uint64_t, u64, 8)
#endif
