// Engine A, class "pgm": PGMIndex<K, Epsilon, EpsilonRecursive, Floating> — properties C01, C02, C07.
#pragma once
#include "a_common.hpp"
#include "a_static.hpp"
#include <deque>
#include "a_seg.hpp"
#include "pgm/pgm_index.hpp"
#include <cstring>

namespace ea {

// ---- PGMIndex as a plain static class ---------------------------------------------------------------------------------
template<typename K_, size_t E, size_t R, typename F>
struct PgmTraits : TraitsBase<K_, E> {
    using K = K_;
    using Index = pgm::PGMIndex<K, E, R, F>;
    static constexpr unsigned clauses = CL_RANGE | CL_LO_LE_POS | CL_FIRST_OCC | CL_LOWER_BOUND;
    static Index *build(const std::vector<K> &d) { return new Index(d.begin(), d.end()); }
    static Approx search(const Index &i, K q) { auto r = i.search(q); return Approx{r.pos, r.lo, r.hi}; }
    static size_t segments(const Index &i) { return i.segments_count(); }
};

template<typename K, size_t E, size_t R, typename F>
struct PgmOpen : pgm::PGMIndex<K, E, R, F> {
    using Base = pgm::PGMIndex<K, E, R, F>;
    using Base::Base;
    using Segment = typename Base::Segment;
    const std::vector<Segment> &segs() const { return this->segments; }
    const std::vector<size_t> &offs() const { return this->levels_offsets; }
    size_t count_n() const { return this->n; }
    K first() const { return this->first_key; }
};

/// Level-shape checks shared by C07 and C04: sizes of the levels against the fan-out bound.
/// level sizes exclude the sentinel; each level may carry one appended closing segment.
template<typename Index>
bool check_level_sizes(const Index &idx, size_t n, size_t eps, size_t epsrec, const sim::Env &env, Outcome &out, Stats &st) {
    auto &offs = idx.offs();
    if (offs.size() < 2) { out.fail("level-structure", "levels_offsets has fewer than 2 entries for n >= 1"); return false; }
    size_t below = n; // number of keys the level is built on
    for (size_t l = 0; l + 1 < offs.size(); ++l) {
        size_t sz = offs[l + 1] - offs[l];
        if (sz < 2) { out.fail("level-structure", "level " + std::to_string(l) + " has no segment besides the sentinel"); return false; }
        size_t segs = sz - 1; // without sentinel
        size_t e = l == 0 ? eps : epsrec;
        int c = chunks_for(env, below);
        size_t bound = below / (2 * e + 1) + (size_t) c + 1;
        if (segs > bound) {
            out.fail("level-size", "level " + std::to_string(l) + " has " + std::to_string(segs) + " segments > floor(" + std::to_string(below) +
                     "/(2*" + std::to_string(e) + "+1)) + c(" + std::to_string(c) + ") + 1 = " + std::to_string(bound));
            return false;
        }
        if (c > 1) st.inc("reach.chunked_level_" + std::string(l == 0 ? "bottom" : "upper"));
        {   // reach probes: the appended closing segment, and levels that exactly fill the routing window
            auto &sg = idx.segs();
            bool appended = sz >= 3 && sg[offs[l + 1] - 2].slope == 0 && sg[offs[l + 1] - 2].intercept == sg[offs[l + 1] - 1].intercept;
            if (appended) st.inc("reach.closing_segment_appended");
            if (epsrec > 0 && l + 2 < offs.size() && segs - (appended ? 1 : 0) == 2 * epsrec + 3) {
                st.inc(appended ? "reach.level_fills_window_with_closing_segment" : "reach.level_fills_window");
                if (appended && std::getenv("VERIF_TRACE_PROBE")) std::fprintf(stderr, "PROBE level %zu of %zu n=%zu\n", l, offs.size() - 1, n);
            }
        }
        below = segs;
    }
    if (epsrec > 0) {
        // the recursion goes on until the top level can be searched within one window (the library stops at one real
        // segment; stopping earlier, at a level that fits into 2*EpsRec+3 positions, would keep C07 as well)
        size_t top = offs[offs.size() - 1] - offs[offs.size() - 2];
        if (top > std::max<size_t>(3, 2 * epsrec + 3 + 1)) { out.fail("level-structure", "top level has " + std::to_string(top) + " entries: more than one search window"); return false; }
    }
    return true;
}

/// C07's per-query oracle over the records of hook H2 (one per level visited, top to bottom). What is demanded is the
/// property's substance and no particular loop structure: every visited level chooses the segment an unbounded scan would
/// choose, never starts scanning before the window, finds the responsible segment inside the window and inspects at most
/// 2*EpsRec+3 segments; a search may skip top levels only if the first level it visits fits into one window entirely.
template<typename K, size_t R, typename Segs, typename Offs>
bool check_routing(const std::vector<sim::LevelRec> &recs, const Segs &segs, const Offs &offs, size_t height, K k, K q, Outcome &out, Stats &st, Trace &tr) {
    size_t expected_levels = height - 1;
    if (recs.size() > height || (expected_levels > 0 && recs.empty())) { // (a search may also report the scan of the root's own level)
        out.fail("levels-visited", "search visited " + std::to_string(recs.size()) + " levels, height-1 = " + std::to_string(expected_levels), "Q " + key_text(q));
        return false;
    }
    bool first_rec = true;
    for (auto &lr : recs) {
        size_t lb = offs[lr.level], le = offs[lr.level + 1] - 1; // le = position of the sentinel
        size_t level_size = le - lb;
        bool skipped_above = first_rec && (size_t) lr.level + 1 < expected_levels; // the search started below the level under the root
        if ((size_t) lr.level + 1 >= offs.size()) { out.fail("levels-visited", "search reports level " + std::to_string(lr.level) + " of an index of height " + std::to_string(height), "Q " + key_text(q)); return false; }
        first_rec = false;
        if (skipped_above && level_size > 2 * R + 3) {
            out.fail("levels-visited", "search starts at level " + std::to_string(lr.level) + " (" + std::to_string(level_size) + " segments, more than one window of 2*EpsRec+3) without a prediction from the level above", "Q " + key_text(q));
            return false;
        }
        // The segment responsible for k at this level: the one an unbounded forward scan from the start of the
        // level stops at (advance while the next key is <= k). On a sorted level this is the rightmost segment
        // with key <= k. build() may append a closing segment keyed (last data key + 1) to an upper level whose
        // own last key is larger, so a level's tail is not always sorted; the scan semantics is what the
        // library's routing implements, and is what is demanded here (DESIGN.md 9, observation O1).
        size_t truth = 0;
        if (level_size >= 2) { // all entries but the last are sorted: binary search there, then one scan step
            size_t lo = 0, hi = level_size - 1; // first index in the prefix with key > k
            while (lo < hi) { size_t mid = (lo + hi) / 2; if (segs[lb + mid].key <= k) lo = mid + 1; else hi = mid; }
            truth = lo == 0 ? 0 : lo - 1;
            if (truth == level_size - 2 && segs[lb + level_size - 1].key <= k) truth = level_size - 1;
        }
        tr.add(lr.chosen);
        std::string where = " level=" + std::to_string(lr.level) + " predicted=" + std::to_string(lr.predicted) + " scan_start=" + std::to_string(lr.scan_start) +
                            " chosen=" + std::to_string(lr.chosen) + " true=" + std::to_string(truth) + " q=" + key_text(q);
        if (lr.chosen != truth) { out.fail("wrong-segment", "routing chose a segment that is not the rightmost with key <= q:" + where, "Q " + key_text(q)); return false; }
        if (!skipped_above) {
            size_t win_lo = lr.predicted > R + 1 ? lr.predicted - (R + 1) : 0;
            size_t win_hi = lr.predicted + R + 2; // exclusive
            if (lr.scan_start < win_lo) { out.fail("window-start", "scan starts before predicted-(EpsRec+1):" + where, "Q " + key_text(q)); return false; }
            if (truth < win_lo || truth >= win_hi) { out.fail("segment-outside-window", "responsible segment outside [pos-(EpsRec+1), pos+EpsRec+2):" + where, "Q " + key_text(q)); return false; }
            if (lr.window_end && lr.window_end > win_hi) {
                out.fail("window-too-wide", "binary-search window [" + std::to_string(lr.scan_start) + "," + std::to_string(lr.window_end) + ") exceeds [pos-(EpsRec+1), pos+EpsRec+2):" + where, "Q " + key_text(q));
                return false;
            }
        }
        if (lr.window_end && lr.window_end - lr.scan_start > 2 * R + 3) { // binary-search path: the searched window itself must be the bounded one
            out.fail("window-too-wide", "binary-search window [" + std::to_string(lr.scan_start) + "," + std::to_string(lr.window_end) + ") holds more than 2*EpsRec+3 segments:" + where, "Q " + key_text(q));
            return false;
        }
        size_t visited = lr.chosen >= lr.scan_start ? lr.chosen - lr.scan_start + 1 : 1;
        if (visited > 2 * R + 3) { out.fail("visited-too-many", "more than 2*EpsRec+3 segments inspected:" + where, "Q " + key_text(q)); return false; }
        st.max("max_visited_per_level", visited);
        if (lr.window_end) st.inc("reach.binary_search_routing"); else st.inc("reach.linear_routing");
    }
    return true;
}

template<typename K, size_t E, size_t R, typename F>
struct PgmClass {
    using Index = PgmOpen<K, E, R, F>;
    using Segment = typename Index::Segment;
    static constexpr size_t linear_threshold = 8 * 64 / sizeof(Segment);

    static bool generic_mode(const std::string &prop) { return prop == "C19" || prop == "C20" || prop == "C17"; }

    static PlanText gen(const CfgEntry &ce, const GenCtx &g, Stats &st) {
        if (generic_mode(g.prop)) return StaticClass<PgmTraits<K, E, R, F>>::gen(ce, g, st);
        PlanText p;
        Rng cfg = sim::stream(g.run_seed, "cfg"), work = sim::stream(g.run_seed, "work"), env = sim::stream(g.run_seed, "env");
        p.set("engine", "buildsim");
        p.set("prop", g.prop);
        p.set("cfg", ce.name);
        bool large;
        size_t n = draw_n(cfg, E, g, large, g.prop == "C07" ? 25 : 15);
        // Epsilon 1 and 64-bit keys: sometimes force so many bottom segments that the level above is chunked too
        bool short_segments = large && !g.tsan && E == 1 && R > 0 && sizeof(K) == 8 && std::is_integral_v<K> && cfg.chance(400);
        if (short_segments) n = (size_t) cfg.range(118000, 125000);
        draw_env(p, env, large, g.tsan);
        sim::Env e = env_from_plan(p);
        std::string sig;
        bool scale = scale_slot(g) && std::is_integral_v<K> && (g.prop != "C04" || sizeof(K) == 8);
        if (scale) sig = set_scale_recipe<K>(p, E, cfg, work, false, std::is_same_v<F, float>, g.prop == "C04");
        else sig = gen_keys_into<K>(p, n, E, chunks_for(e, n), cfg, work, short_segments);
        p.set("motifs", sig);
        p.set("qseed", work.next() >> 1);
        if (!scale && cfg.chance(120)) p.set("container", "deque"); // random access, not contiguous
        if (!scale) p.set("qmax", large ? 1500 : 2000);
        // schedule-independence: large runs are built a second time under another schedule
        p.set("sched2", large && cfg.chance(500) ? (env.next() >> 1) | 1 : 0);
        (void) st;
        return p;
    }

    static Outcome run(const CfgEntry &ce, const PlanText &p, const RunCtx &rc, Stats &st) {
        if (generic_mode(rc.prop)) return StaticClass<PgmTraits<K, E, R, F>>::run(ce, p, rc, st);
        Outcome out;
        Trace tr;
        std::vector<K> data = keys_from_plan<K>(p);
        const size_t n = data.size();
        out.preds = common_preds(data);
        if (n == 0) { out.trace_hash = tr.h; return out; }
        sim::Env env = env_from_plan(p);
        const int c0 = chunks_for(env, n);

        sim::begin_run(env);
        sim::g_record_points = rc.prop == "C04"; // C04 needs the points of every level (hook H1)
        Index *idx = nullptr;
        try {
            if (p.get("container") == "deque") { std::deque<K> dq(data.begin(), data.end()); st.inc("reach.range_from_deque"); idx = new Index(dq.begin(), dq.end()); }
            else idx = new Index(data.begin(), data.end());
        } catch (const std::exception &e) {
            sim::g_record_points = false;
            sim::end_run();
            out.fail("ctor-exception", std::string("constructor threw on in-domain data: ") + e.what());
            out.trace_hash = tr.h;
            return out;
        }
        sim::g_record_points = false;
        std::vector<sim::PointRec> main_points;
        std::vector<sim::WorkerRecord> worker_records;
        if (rc.prop == "C04") { main_points = sim::g_main_points; worker_records = sim::g_worker_records; }
        note_env_stats(st);
        bool sim_active = c0 > 1 && sim::g_env_stats.max_team >= 2;
        if (sim_active) st.inc("sim_active_runs");
        if (c0 > 1) st.mark("teams", sim::mix(c0, sim::g_env_stats.max_team));
        tr.add(sim_stat_decision_hash());

        // trace: the structure itself
        for (auto &s : idx->segs()) { tr.add_ld((long double) s.key); tr.add_ld((long double) s.slope); tr.add(s.intercept); }
        for (auto o : idx->offs()) tr.add(o);

        // schedule-independence: same keys, same machine, same grants, another schedule => identical structure
        uint64_t sched2 = p.get_u("sched2", 0);
        if (sched2 && c0 > 1) {
            sim::Env env2 = env;
            env2.sched_seed = sched2;
            env2.preempt_permille = env.preempt_permille ? env.preempt_permille : 200;
            sim::begin_run(env2);
            try {
                Index idx2(data.begin(), data.end());
                note_env_stats(st);
                bool same = idx2.segs().size() == idx->segs().size() && idx2.offs() == idx->offs() &&
                            std::memcmp(idx2.segs().data(), idx->segs().data(), idx->segs().size() * sizeof(Segment)) == 0;
                st.inc("schedule_pairs_compared");
                if (!same) out.fail("schedule-dependence", "two schedules of the same team produced different segment arrays");
            } catch (const std::exception &e) {
                out.fail("ctor-exception", std::string("constructor threw under the second schedule: ") + e.what());
            }
        }
        sim::end_run();
        if (!out.ok) { delete idx; out.trace_hash = tr.h; return out; }

        st.mark("tuples", sim::mix(sim::hash_str(ce.name.c_str()), sim::mix(sim::hash_str(p.get("motifs").c_str()), (uint64_t) c0 * 64 + sim::g_env_stats.max_team)));
        size_t bottom_segments = idx->segments_count();
        if (idx->height() >= 3) st.inc("reach.height_ge_3");

        const std::string &prop = rc.prop;
        std::vector<K> queries = queries_for<K>(p, data);
        bool any_present = false, any_absent = false;

        if (prop == "C04") {
            // every level of the recursive index: maximal segments w.r.t. the exact oracle (Epsilon at the bottom,
            // EpsilonRecursive above), judged on the points the builder committed to
            if constexpr (std::is_integral_v<K>) {
                auto &segs = idx->segs();
                auto &offs = idx->offs();
                size_t main_pos = 0, region = 0;
                size_t below = n;
                for (size_t l = 0; l + 1 < offs.size() && out.ok; ++l) {
                    size_t e = l == 0 ? E : R;
                    int c = chunks_for(env, below);
                    std::vector<sim::PointRec> pts;
                    if (c > 1) { for (auto &wr : worker_records) if ((size_t) wr.region == region) pts.insert(pts.end(), wr.points.begin(), wr.points.end()); ++region; }
                    else { // sequential level: its points are the next block of main-thread points (a block starts at y == 0)
                        size_t b = main_pos;
                        if (b < main_points.size()) { pts.push_back(main_points[b++]); while (b < main_points.size() && main_points[b].y != 0) pts.push_back(main_points[b++]); }
                        main_pos = b;
                    }
                    if (pts.empty()) { out.fail("no-output", "level " + std::to_string(l) + ": no point recorded"); break; }
                    size_t m = pts.back().y; // the closing point maps (last key + 1) to the number of keys of the level
                    std::vector<long double> seg_keys;
                    for (size_t i = offs[l]; i + 1 < offs[l + 1]; ++i) seg_keys.push_back((long double) segs[i].key);
                    size_t base_off = l == 0 ? 0 : offs[l - 1];
                    auto key_at = [&](size_t i) -> long double { return l == 0 ? (long double) data[i] : (long double) segs[base_off + i].key; };
                    check_level_maximality(pts, seg_keys, m, c, e, key_at, (long double) sentinel_of<K>(), "level " + std::to_string(l), out, st);
                    if (c > 1) st.inc("reach.chunked_level_checked");
                    if (l > 0) st.inc("reach.upper_level_checked");
                    // the level above indexes the segments of this level except a segment starting at the sentinel
                    below = offs[l + 1] - offs[l] - 1;
                    if (seg_keys.size() >= 2 && !(seg_keys.back() > seg_keys[seg_keys.size() - 2])) --below; // appended closing segment (O1)
                    if (e == 0) break;
                }
            }
        } else if (prop == "C07") {
            if constexpr (R > 0) {
                if (!check_level_sizes(*idx, n, E, R, env, out, st)) { delete idx; out.trace_hash = tr.h; return out; }
                std::vector<sim::LevelRec> recs;
                auto &segs = idx->segs();
                auto &offs = idx->offs();
                for (K q : queries) {
                    recs.clear();
                    sim::t_level_rec = &recs;
                    auto r = idx->search(q);
                    sim::t_level_rec = nullptr;
                    tr.add(r.pos);
                    K k = std::max(idx->first(), q);
                    if (!check_routing<K, R>(recs, segs, offs, idx->height(), k, q, out, st, tr)) break;
                }
                st.inc("queries", queries.size());
            }
        } else {
            unsigned clauses = 0;
            if (prop == "C01") clauses = CL_RANGE | CL_LO_LE_POS | CL_FIRST_OCC;
            else if (prop == "C02") clauses = CL_LOWER_BOUND;
            else clauses = CL_RANGE | CL_LO_LE_POS | CL_FIRST_OCC | CL_LOWER_BOUND; // C17 & co: everything, reported by the caller's policy
            for (K q : queries) {
                bool present = std::binary_search(data.begin(), data.end(), q);
                if (prop == "C01" && !present) continue;
                (present ? any_present : any_absent) = true;
                auto r = idx->search(q);
                tr.add(r.pos); tr.add(r.lo); tr.add(r.hi);
                if (!check_contract(data, q, Approx{r.pos, r.lo, r.hi}, E, clauses, out)) break;
                st.inc("queries");
            }
        }
        if (bottom_segments >= 2 && (any_present || prop == "C07") && (any_absent || prop == "C01" || prop == "C07")) st.inc("nontrivial_runs");
        if (sim_active) st.mark("nontrivial", tr.h); else if (bottom_segments >= 2) st.mark("nontrivial", sim::mix(sim::hash_str(ce.name.c_str()), sim::hash_str(p.get("motifs").c_str()) ^ n));
        if (st.samples.size() < 3 && (sim_active || st.counters["runs"] % 50 == 7)) st.samples.push_back(abbreviate_plan(p));
        delete idx;
        out.trace_hash = tr.h;
        return out;
    }
};

#define EA_REGISTER_PGM(K, E, R, F, FN)                                                                                  \
    static ::ea::Registrar reg_pgm_##K##_##E##_##R##_##FN(::ea::CfgEntry{                                                \
        std::string("pgm:") + ::ea::key_name<K>() + ":e" #E ":r" #R ":" #FN, "pgm", E, R, std::is_floating_point_v<K>,  \
        &::ea::PgmClass<K, E, R, F>::gen, &::ea::PgmClass<K, E, R, F>::run});

}
