// Engine A, class "md": MultidimensionalPGMIndex. Its functional properties (C13, C14) are not claimed (pure functions);
// memory safety (C17), copy independence (C19) and rejection of too-wide coordinates (C20) are.
#pragma once
#include "a_static.hpp"
#include "pgm/pgm_index_variants.hpp"
#include <array>
#include <tuple>

#ifdef MORTON_ND_BMI2_ENABLED
namespace ea {

template<uint8_t D, typename T, size_t E>
struct MdClass {
    using Index = pgm::MultidimensionalPGMIndex<D, T, E>;
    using Point = typename Index::value_type;
    using Arr = std::array<T, D>;
    static constexpr size_t field_bits = size_t(std::numeric_limits<T>::digits) / D;
    static constexpr T coord_max = (T(1) << (field_bits - 1)) - 1; // largest coordinate that fits the encoder

    template<size_t... I> static Point to_point(const Arr &a, std::index_sequence<I...>) { return Point{a[I]...}; }
    static Point to_point(const Arr &a) { return to_point(a, std::make_index_sequence<D>()); }
    template<size_t... I> static Arr from_point(const Point &p, std::index_sequence<I...>) { return Arr{T(std::get<I>(p))...}; }
    static Arr from_point(const Point &p) { return from_point(p, std::make_index_sequence<D>()); }

    static std::string arr_text(const Arr &a) { std::string s; for (size_t i = 0; i < D; ++i) s += (i ? " " : "") + std::to_string(a[i]); return s; }

    static PlanText gen(const CfgEntry &ce, const GenCtx &g, Stats &st) {
        PlanText p;
        Rng cfg = sim::stream(g.run_seed, "cfg"), work = sim::stream(g.run_seed, "work"), env = sim::stream(g.run_seed, "env");
        p.set("engine", "buildsim");
        p.set("prop", g.prop);
        p.set("cfg", ce.name);
        bool boundary = g.profile == "boundary";
        bool large = !boundary && cfg.chance(8);
        draw_env(p, env, large, g.tsan);
        size_t n = large ? (size_t) cfg.range(33000, 60000) : (boundary ? (size_t) cfg.range(1, 4) : (size_t) cfg.range(1, 600));
        // universe per coordinate: tiny grids (dense, duplicates), medium, or the full encodable range
        T side;
        switch (cfg.below(4)) { case 0: side = 3; break; case 1: side = 15; break; case 2: side = T(std::min<uint64_t>(coord_max, 1000)); break; default: side = coord_max; }
        for (size_t i = 0; i < n; ++i) {
            Arr a;
            for (size_t d = 0; d < D; ++d) a[d] = T(work.chance(50) ? side : work.range(0, side));
            p.item('P', arr_text(a));
        }
        // boxes and probe points
        size_t nq = boundary ? 8 : 30;
        for (size_t i = 0; i < nq; ++i) {
            Arr lo, hi;
            for (size_t d = 0; d < D; ++d) {
                T a = T(work.range(0, side)), b = T(work.range(0, side));
                if (work.chance(150)) b = a;               // one-cell-thick slab
                if (work.chance(100)) { a = 0; b = side; } // full extent
                if (work.chance(60)) b = coord_max;        // reaches the largest encodable code
                lo[d] = std::min(a, b); hi[d] = std::max(a, b);
            }
            p.item('B', arr_text(lo) + " " + arr_text(hi));
            Arr q;
            for (size_t d = 0; d < D; ++d) q[d] = T(work.chance(100) ? coord_max : work.range(0, std::min<uint64_t>(coord_max, (uint64_t) side + 2)));
            p.item('C', arr_text(q)); // contains() probe, present or absent (beyond all codes included)
        }
        if (g.prop == "C19") p.set("steps", draw_lifetime_steps(cfg));
        if (g.prop == "C20") { p.set("bad_kind", cfg.chance(350) ? (uint64_t) cfg.range(1, 4) : 0); p.set("bad_index", work.below(n)); p.set("bad_dim", work.below(D)); p.set("bad_extra_bits", work.below(std::numeric_limits<T>::digits - field_bits + 1)); }
        (void) st;
        return p;
    }

    template<typename S, size_t... I> static auto signed_tuple(const std::array<S, D> &a, std::index_sequence<I...>) { return std::make_tuple(a[I]...); }
    /// the points as tuples of the signed type S (coordinates reduced to its non-negative range), point bi negative in dimension bd
    template<typename S>
    static bool signed_rejected(const std::vector<Point> &pts, size_t bi, size_t bd, unsigned extra, const sim::Env &env) {
        using Tup = decltype(signed_tuple<S>(std::array<S, D>{}, std::make_index_sequence<D>()));
        const uint64_t lim = std::min<uint64_t>((uint64_t) std::numeric_limits<S>::max(), (uint64_t) coord_max);
        std::vector<Tup> v;
        for (size_t i = 0; i < pts.size(); ++i) {
            Arr a = from_point(pts[i]);
            std::array<S, D> s;
            for (size_t d = 0; d < D; ++d) s[d] = S(uint64_t(a[d]) % (lim + 1));
            if (i == bi) s[bd] = extra == 0 ? std::numeric_limits<S>::min() : S(-(int64_t) std::min<uint64_t>(extra, lim));
            v.push_back(signed_tuple<S>(s, std::make_index_sequence<D>()));
        }
        bool rejected = false;
        sim::begin_run(env);
        try { Index idx(v.begin(), v.end()); (void) idx; } catch (const std::exception &) { rejected = true; }
        sim::end_run();
        return rejected;
    }

    static Arr parse_arr(const std::vector<std::string> &t, size_t off) { Arr a{}; for (size_t d = 0; d < D && off + d < t.size(); ++d) a[d] = (T) std::strtoull(t[off + d].c_str(), nullptr, 10); return a; }

    static Outcome run(const CfgEntry &ce, const PlanText &p, const RunCtx &rc, Stats &st) {
        Outcome out;
        Trace tr;
        const std::string &prop = rc.prop;
        std::vector<Point> pts;
        std::vector<std::pair<Arr, Arr>> boxes;
        std::vector<Arr> probes;
        for (auto &it : p.items) {
            auto t = sim::split_ws(it.second);
            if (it.first == 'P' && t.size() >= D) pts.push_back(to_point(parse_arr(t, 0)));
            else if (it.first == 'B' && t.size() >= 2 * D) boxes.emplace_back(parse_arr(t, 0), parse_arr(t, D));
            else if (it.first == 'C' && t.size() >= D) probes.push_back(parse_arr(t, 0));
        }
        if (pts.empty()) { out.trace_hash = tr.h; return out; }
        sim::Env env = env_from_plan(p);

        if (prop == "C20") {
            // one coordinate of one point at width >= FieldBits: the constructor must reject (any std::exception)
            size_t bi = (size_t) p.get_u("bad_index", 0) % pts.size(), bd = (size_t) p.get_u("bad_dim", 0) % D;
            Arr a = from_point(pts[bi]);
            unsigned extra = (unsigned) p.get_u("bad_extra_bits", 0);
            if (unsigned kind = (unsigned) p.get_u("bad_kind", 0)) {
                // the offending coordinate is a negative value held in a signed element type of the input tuples (any width):
                // the encoder takes its fields as the unsigned T, so it is wider than any field
                st.inc("fault.invalid_op");
                bool rejected = kind == 1 ? signed_rejected<int8_t>(pts, bi, bd, extra, env) : kind == 2 ? signed_rejected<int16_t>(pts, bi, bd, extra, env)
                              : kind == 3 ? signed_rejected<int32_t>(pts, bi, bd, extra, env) : signed_rejected<int64_t>(pts, bi, bd, extra, env);
                tr.add_str(rejected ? "exception" : "no exception");
                if (!rejected) out.fail("wide-coordinate-not-rejected", "point " + std::to_string(bi) + " has a negative coordinate (int" + std::to_string(4 << kind) + "_t tuples) in dimension " + std::to_string(bd) + ": constructor accepted it");
                st.mark("nontrivial", sim::mix(sim::hash_str(ce.name.c_str()), bi * 8 + bd + extra * 100000 + kind * 7777777));
                out.trace_hash = tr.h;
                return out;
            }
            a[bd] = T(T(1) << std::min<unsigned>(field_bits - 1 + extra, std::numeric_limits<T>::digits - 1)); // BIT_WIDTH = field_bits + extra
            pts[bi] = to_point(a);
            st.inc("fault.invalid_op");
            std::string got = "no exception";
            sim::begin_run(env);
            try { Index idx(pts.begin(), pts.end()); (void) idx; }
            catch (const std::exception &e) { got = "exception"; }
            sim::end_run();
            tr.add_str(got);
            if (got != "exception") out.fail("wide-coordinate-not-rejected", "point " + std::to_string(bi) + " has coordinate " + std::to_string(a[bd]) + " (width >= FieldBits " + std::to_string(field_bits) + ") in dimension " + std::to_string(bd) + ": constructor accepted it");
            st.mark("nontrivial", sim::mix(sim::hash_str(ce.name.c_str()), bi * 8 + bd + extra * 100000));
            out.trace_hash = tr.h;
            return out;
        }

        sim::begin_run(env);
        Index *idx = nullptr;
        try { idx = new Index(pts.begin(), pts.end()); }
        catch (const std::exception &e) { sim::end_run(); if (prop != "C17") out.fail("ctor-exception", std::string("constructor threw on encodable points: ") + e.what()); out.trace_hash = tr.h; return out; }
        note_env_stats(st);
        sim::end_run();
        tr.add(sim_stat_decision_hash());

        auto answers = [&](Index &ix) {
            std::vector<uint64_t> v;
            for (auto &a : probes) v.push_back(ix.contains(to_point(a)) ? 1 : 0);
            for (auto &pt : pts) { v.push_back(ix.contains(pt) ? 1 : 0); if (v.size() > probes.size() + 200) break; }
            for (auto &b : boxes) {
                size_t cnt = 0, budget = pts.size() + 2;
                uint64_t h = 0;
                for (auto it = ix.range(to_point(b.first), to_point(b.second)); it != ix.end(); ++it) {
                    Arr a = from_point(*it);
                    for (size_t d = 0; d < D; ++d) h = h * 1000003 + a[d];
                    ++cnt;
                    if (budget-- == 0) break; // an iteration that never terminates is reported by the digest differing / the watchdog
                }
                v.push_back(cnt); v.push_back(h);
            }
            return v;
        };

        if (prop == "C19") {
            Rng r(p.get_u("seed", 1) ^ 0xC19);
            sim::set_poison(true);
            // the copy must be queried through non-const members, hence the lambda takes a mutable reference
            auto ans_const = [&](const Index &ix) { return answers(const_cast<Index &>(ix)); };
            auto make_other = [&]() { return new Index(pts.begin(), pts.end()); };
            lifetime_history(idx, p.get("steps"), ans_const, make_other, r, pts.size() * sizeof(T) + 4096, out, st, tr);
            sim::set_poison(false);
            st.inc("fault.poison_runs", sim::g_poisoned_blocks); sim::g_poisoned_blocks = 0;
            st.mark("nontrivial", sim::mix(tr.h, sim::hash_str(p.get("steps").c_str())));
        } else {
            auto v = answers(*idx);
            for (auto x : v) tr.add(x);
            st.inc("queries", v.size());
            st.mark("nontrivial", sim::mix(sim::hash_str(ce.name.c_str()), tr.h));
        }
        delete idx;
        out.trace_hash = tr.h;
        return out;
    }
};

#define EA_REGISTER_MD(D, T, TN, E)                                                                                        \
    static ::ea::Registrar reg_md_##D##_##TN##_##E(::ea::CfgEntry{"md:d" #D ":" #TN ":e" #E, "md", E, 4, false, &::ea::MdClass<D, T, E>::gen, &::ea::MdClass<D, T, E>::run});

}
#endif
