#include "b_dynamic.hpp"
using u32ptr = uint32_t *;
EB_REGISTER_DYN(int64_t, u32ptr, 4)
EB_REGISTER_DYN(uint32_t, std::string, 1)
EB_REGISTER_DYN(int64_t, int64_t, 64)
EB_REGISTER_DYN(uint32_t, u32ptr, 16)
