#include "a_variants.hpp"
EA_REGISTER_COMP(uint64_t, 16, 256, float, f32)
EA_REGISTER_COMP(uint32_t, 2, 256, double, f64)
EA_REGISTER_COMP(uint64_t, 128, 4, float, f32)
EA_REGISTER_COMP(uint16_t, 1, 0, double, f64)
EA_REGISTER_COMP(uint32_t, 64, 16, float, f32)
