#include "d_readers.hpp"
using namespace ed;
using u32ptr = uint32_t *;
ED_REGISTER("rd-dyn:u32:u32:e4", "rd-dyn", DynamicReaders<uint32_t, uint32_t, 4>)
ED_REGISTER("rd-dyn:i64:str:e16", "rd-dyn", DynamicReaders<int64_t, std::string, 16>)
ED_REGISTER("rd-dyn:u64:ptr:e1", "rd-dyn", DynamicReaders<uint64_t, u32ptr, 1>)
#ifdef MORTON_ND_BMI2_ENABLED
ED_REGISTER("rd-md:d2:u32", "rd-md", MdReaders<2, uint32_t, 16>)
ED_REGISTER("rd-md:d3:u64", "rd-md", MdReaders<3, uint64_t, 4>)
#endif
