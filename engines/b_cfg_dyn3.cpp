#include "b_dynamic.hpp"
EB_REGISTER_DYN(uint64_t, std::string, 64)
EB_REGISTER_DYN(int32_t, uint32_t, 1)
EB_REGISTER_DYN(uint16_t, std::string, 4)
EB_REGISTER_DYN(uint64_t, int64_t, 16)
