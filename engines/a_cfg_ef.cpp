#include "a_variants.hpp"
EA_REGISTER_EF(uint32_t, 4, float, f32)
EA_REGISTER_EF(uint32_t, 64, float, f32)
EA_REGISTER_EF(uint64_t, 1, double, f64)
EA_REGISTER_EF(uint64_t, 8, float, f32)
EA_REGISTER_EF(uint16_t, 2, float, f32)
EA_REGISTER_EF(uint16_t, 16, double, f64)
EA_REGISTER_EF(uint64_t, 128, float, f32)
EA_REGISTER_EF(uint32_t, 1, float, f32)
