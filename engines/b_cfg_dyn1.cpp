#include "b_dynamic.hpp"
EB_REGISTER_DYN(uint32_t, uint32_t, 4)
EB_REGISTER_DYN(uint64_t, uint32_t, 1)
EB_REGISTER_DYN(int32_t, std::string, 16)
EB_REGISTER_DYN(uint16_t, uint32_t, 4)
