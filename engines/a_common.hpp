// Engine A (buildsim): static indexes under the simulated construction environment (E1).
// Common part: configuration registry, plan fields, environment drawing, query families, the search-contract oracle.
#pragma once
#include "../sim/core.hpp"
#include "../sim/env.hpp"
#include "../sim/sched.h"
#include "../gen/keys.hpp"
#include <algorithm>
#include <cmath>
#include <functional>
#include <limits>
#include <stdexcept>
#include <string>
#include <type_traits>
#include <vector>

namespace ea {

using sim::Outcome;
using sim::PlanText;
using sim::Rng;
using sim::Stats;
using sim::Trace;

struct GenCtx {
    uint64_t run_seed;
    uint64_t run_index;
    std::string prop, tier, profile;
    bool tsan = false;
};

struct RunCtx {
    std::string prop;
    std::string profile;
};

struct CfgEntry {
    std::string name;  ///< e.g. "pgm:u32:e4:r2:f32"
    std::string cls;   ///< pgm | comp | buck | ef | cwrap | seg | md
    size_t eps = 0, epsrec = 0;
    bool floating_key = false;
    PlanText (*gen)(const CfgEntry &, const GenCtx &, Stats &) = nullptr;
    Outcome (*run)(const CfgEntry &, const PlanText &, const RunCtx &, Stats &) = nullptr;
};

inline std::vector<CfgEntry> &registry() {
    static std::vector<CfgEntry> r;
    return r;
}
struct Registrar {
    explicit Registrar(const CfgEntry &e) { registry().push_back(e); }
};

inline const CfgEntry *find_cfg(const std::string &name) {
    for (auto &e : registry()) if (e.name == name) return &e;
    return nullptr;
}

template<typename K> const char *key_name() {
    if constexpr (std::is_same_v<K, uint8_t>) return "u8";
    else if constexpr (std::is_same_v<K, int8_t>) return "i8";
    else if constexpr (std::is_same_v<K, uint16_t>) return "u16";
    else if constexpr (std::is_same_v<K, int16_t>) return "i16";
    else if constexpr (std::is_same_v<K, uint32_t>) return "u32";
    else if constexpr (std::is_same_v<K, int32_t>) return "i32";
    else if constexpr (std::is_same_v<K, uint64_t>) return "u64";
    else if constexpr (std::is_same_v<K, int64_t>) return "i64";
    else if constexpr (std::is_same_v<K, float>) return "f32";
    else if constexpr (std::is_same_v<K, double>) return "f64";
    else return "?";
}

// ---- environment ---------------------------------------------------------------------------------------------------

/// Draws the simulated machine and scheduler knobs and writes them into the plan header.
inline void draw_env(PlanText &p, Rng &env, bool large, bool tsan) {
    static const int shapes[] = {1, 2, 2, 3, 3, 4, 5, 7, 8, 12, 16, 16, 19, 20, 20, 21, 32, 64};
    int procs = shapes[env.below(sizeof shapes / sizeof *shapes)];
    int maxth = env.chance(500) ? procs : shapes[env.below(sizeof shapes / sizeof *shapes)];
    if (large && env.chance(850) && std::min(procs, maxth) == 1) { procs = (int) env.range(2, 20); maxth = (int) env.range(2, 24); }
    p.set("procs", (uint64_t) procs);
    p.set("maxthreads", (uint64_t) maxth);
    // team grant per parallel region: "0" = as requested; otherwise the granted size (fault kind team_shrink)
    std::string grants;
    int par = std::min(std::min(procs, maxth), 20);
    for (int r = 0; r < 4; ++r) {
        int g = 0;
        if (env.chance(350) && par > 1) g = (int) env.range(1, (uint64_t) par - 1);
        grants += (r ? "," : "") + std::to_string(g);
    }
    p.set("grants", grants);
    static const unsigned ye[] = {1, 4, 16, 64};
    static const unsigned pp[] = {0, 20, 200, 700};
    unsigned y = ye[env.below(4)], pr = pp[env.below(4)];
    if (pr >= 200 && y < 4) y = 4;          // keep the switch count per build bounded
    if (tsan && pr >= 700) y = 64;
    p.set("yield_every", (uint64_t) y);
    p.set("preempt", (uint64_t) pr);
    p.set("schedseed", env.next() >> 1);
}

inline sim::Env env_from_plan(const PlanText &p) {
    sim::Env e;
    e.procs = (int) p.get_u("procs", 1);
    e.max_threads = (int) p.get_u("maxthreads", 1);
    e.yield_every = (unsigned) p.get_u("yield_every", 1);
    if (e.yield_every == 0) e.yield_every = 1;
    e.preempt_permille = (unsigned) p.get_u("preempt", 0);
    e.sched_seed = p.get_u("schedseed", 1);
    std::string g = p.get("grants", "");
    size_t pos = 0;
    while (pos < g.size()) {
        size_t c = g.find(',', pos);
        if (c == std::string::npos) c = g.size();
        e.grants.push_back(std::atoi(g.substr(pos, c - pos).c_str()));
        pos = c + 1;
    }
    return e;
}

/// Chunk count the parallel builder will use for a sequence of n keys under env (1 when it stays sequential).
inline int chunks_for(const sim::Env &e, size_t n) {
    int par = e.parallelism();
    return (par == 1 || n < (size_t(1) << 15)) ? 1 : par;
}

inline void note_env_stats(Stats &st) {
    auto &s = sim::g_env_stats;
    st.inc("fault.team_shrink", s.team_shrink);
    st.inc("sim.parallel_regions", s.regions);
    st.inc("sim.workers", s.workers);
    st.max("sim.max_team", s.max_team);
    st.inc("sim.yield_points", sim_stat_yield_points());
    st.inc("fault.preempt", sim_stat_switches());
    st.inc("sim.scheduler_steps", sim_stat_yield_points() + sim_stat_switches());
}

// ---- sizes ----------------------------------------------------------------------------------------------------------

/// Draws n: boundary, small, medium, or large (only large activates E1).  Returns n and sets `large`.
inline size_t draw_n(Rng &cfg, size_t eps, const GenCtx &g, bool &large, unsigned large_permille) {
    large = false;
    if (g.tier == "thorough") large_permille *= 4; // the long budget goes into the runs that activate the simulated team
    if (g.tsan || cfg.chance(large_permille)) {
        large = true;
        size_t hi = g.tier == "thorough" ? (cfg.chance(100) ? 1000000 : 300000) : 120000;
        if (g.tsan) hi = 70000;
        return (size_t) cfg.range(size_t(1) << 15, hi);
    }
    switch (cfg.below(10)) {
        case 0: return (size_t) cfg.range(1, 4);
        case 1: return 2 * eps + (size_t) cfg.range(1, 3);
        case 2: case 3: case 4: return (size_t) cfg.range(1, 60);
        case 5: case 6: return (size_t) cfg.range(1, 400);
        case 7: case 8: return (size_t) cfg.range(1, 2500);
        default: return (size_t) cfg.range(1, std::max<size_t>(20 * eps, 5000));
    }
}

// ---- typed helpers ---------------------------------------------------------------------------------------------------

template<typename K>
constexpr K sentinel_of() {
    return std::numeric_limits<K>::has_infinity ? std::numeric_limits<K>::infinity() : std::numeric_limits<K>::max();
}

// ---- scale slots: rare, deterministic large-scale runs ---------------------------------------------------------------
// The third run of every worker, and every 1536th after it, is a "scale slot": sizes far beyond the ordinary ones
// (a segment spanning more than 2^23 positions, more than 2^24 keys, tens of thousands of segments, files above 4 MiB,
// hundreds of thousands of resident entries). Their keys come from a compact recipe in the plan header instead of
// explicit K lines, so plans stay small; such plans cannot be key-minimised, only replayed.
inline bool scale_slot(const GenCtx &g) {
#if defined(__SANITIZE_THREAD__)
    (void) g;
    return false; // too expensive under ThreadSanitizer
#else
    // (under AddressSanitizer only the cheapest recipes are used, see set_scale_recipe)
    return g.profile.empty() && ((g.run_index >> 4) % 1536) == 2;
#endif
}
#if defined(__SANITIZE_ADDRESS__)
constexpr bool scale_cheap_only = true;
#else
constexpr bool scale_cheap_only = false;
#endif

/// recipe = "<kind> <n> <seed> <a> <b> <c>":
///   linear  n seed step jitter _      positions start + i*step + U[0,jitter]            (one long segment)
///   skewed  n seed head ap_step tail   head heavy-tailed keys, then an arithmetic progression, then tail heavy-tailed keys
///   walk    n seed gapbits _ _         heavy-tailed gaps below 2^gapbits                   (very many segments)
///   convex  n seed gap0 delta grow     gaps changing by delta per step: tens of thousands of points in strictly convex
///                                      (or concave) position inside one epsilon band, i.e. hulls beyond the builder's reserve
template<typename K>
bool keys_from_recipe(const PlanText &p, std::vector<K> &v) {
    if (!p.has("recipe")) return false;
    auto t = sim::split_ws(p.get("recipe"));
    if (t.size() < 6) return false;
    gen::KeyMap<K> km;
    size_t n = (size_t) std::strtoull(t[1].c_str(), nullptr, 10);
    Rng r(std::strtoull(t[2].c_str(), nullptr, 10));
    uint64_t a = std::strtoull(t[3].c_str(), nullptr, 10), b = std::strtoull(t[4].c_str(), nullptr, 10), c = std::strtoull(t[5].c_str(), nullptr, 10);
    v.clear();
    v.reserve(n);
    uint64_t cur = std::min<uint64_t>(p.get_u("recipe_start", 1000), km.U / 2);
    auto adv = [&](uint64_t gap) { cur = (km.U - cur < gap) ? km.U : cur + gap; };
    if (t[0] == "linear") {
        for (size_t i = 0; i < n; ++i) { uint64_t j = b ? r.below(b + 1) : 0; v.push_back(km.at(std::min(km.U, cur + j))); adv(a); }
        std::sort(v.begin(), v.end());
    } else if (t[0] == "skewed") {
        size_t head = (size_t) a, tail = (size_t) c, ap = n > head + tail ? n - head - tail : 0;
        for (size_t i = 0; i < head; ++i) { adv(1 + r.magnitude(20)); v.push_back(km.at(cur)); }
        for (size_t i = 0; i < ap; ++i) { adv(b); v.push_back(km.at(cur)); }
        for (size_t i = 0; i < tail; ++i) { adv(1 + r.magnitude(20)); v.push_back(km.at(cur)); }
    } else if (t[0] == "convex") { // gaps change by `b` per step, smoothly: a = first gap, c = 0 shrinking / 1 growing gaps
        // drawn from the recipe seed: an optional prefix of consecutive keys (ranks above epsilon before the curve starts)
        // and up to three mild kinks (the gap changes by 0.5-8 % in the direction of the curvature), one of them early:
        // the builder's tangent searches then advance while the hull is still growing
        uint64_t gap = a;
        size_t prefix = r.chance(500) ? (size_t) r.range(500, 5000) : 0;
        size_t kink_at[3] = {n, n, n};
        unsigned kinks = (unsigned) r.below(4), kink_pm[3] = {0, 0, 0};
        for (unsigned k = 0; k < kinks; ++k) { kink_at[k] = k == 0 ? (size_t) r.range(1, 200) : (size_t) r.range(n / 4, n); kink_pm[k] = (unsigned) r.range(5, 80); }
        for (size_t i = 0; i < prefix && i < n; ++i) { v.push_back(km.at(cur)); adv(1); }
        if (prefix) adv(uint64_t(1) << r.range(20, 44));
        for (size_t i = prefix, j = 0; i < n; ++i, ++j) {
            v.push_back(km.at(cur));
            adv(gap);
            if (c) gap += b; else gap = gap > b + 1 ? gap - b : 1;
            for (unsigned k = 0; k < kinks; ++k) if (j == kink_at[k]) gap = c ? gap + gap / 1000 * kink_pm[k] : std::max<uint64_t>(1, gap - gap / 1000 * kink_pm[k]);
        }
    } else if (t[0] == "walk") {
        for (size_t i = 0; i < n; ++i) { adv(1 + r.magnitude((unsigned) a)); v.push_back(km.at(cur)); }
    } else return false;
    return true;
}

template<typename K>
std::vector<K> keys_from_plan(const PlanText &p) {
    std::vector<K> v;
    if (keys_from_recipe<K>(p, v)) return v;
    v.reserve(p.keys.size());
    for (long double x : p.keys) v.push_back((K) x);
    if (!std::is_sorted(v.begin(), v.end())) { // a defect of the generator or a hand-edited plan, never the library's fault
        std::printf("X harness-error: the plan's keys are not sorted\n");
        std::fflush(stdout);
        std::_Exit(2);
    }
    return v;
}

template<typename K> inline bool has_prev(K k) {
    if constexpr (std::is_floating_point_v<K>) return k > std::numeric_limits<K>::lowest();
    else return k > std::numeric_limits<K>::lowest();
}
template<typename K> inline K prev_of(K k) {
    if constexpr (std::is_floating_point_v<K>) return std::nextafter(k, -std::numeric_limits<K>::infinity());
    else return K(k - 1);
}
/// next representable value; caller must ensure k is not the largest finite value
template<typename K> inline K next_of(K k) {
    if constexpr (std::is_floating_point_v<K>) return std::nextafter(k, std::numeric_limits<K>::infinity());
    else return K(k + 1);
}
template<typename K> inline bool is_reserved(K k) {
    if constexpr (std::is_floating_point_v<K>) return !(k < std::numeric_limits<K>::infinity()) || k != k;
    else return k == std::numeric_limits<K>::max();
}

struct QueryOpts {
    uint64_t qseed = 1;
    size_t max_sampled = 2000; ///< distinct keys sampled (all when the data has fewer)
    bool far = true;           ///< include lowest(), max-1 and 2^k-far queries
    long double far_limit = 0; ///< for floating keys: keep |q - nearest key| below this (0 = unlimited)
};

/// The query families of DESIGN.md 4.1 for a sorted data vector.
template<typename K>
std::vector<K> make_queries(const std::vector<K> &data, const QueryOpts &o) {
    std::vector<K> q;
    const size_t n = data.size();
    if (n == 0) return q;
    Rng r(sim::mix(o.qseed, 0x51));
    auto push = [&](K v) { if (!is_reserved(v)) q.push_back(v); };
    auto near_ok = [&](K v) {
        if (o.far_limit == 0) return true;
        long double d = std::min(std::fabs((long double) v - (long double) data.front()), std::fabs((long double) v - (long double) data.back()));
        if (v >= data.front() && v <= data.back()) return true;
        return d <= o.far_limit;
    };
    auto visit = [&](size_t i) { // i = index of the first occurrence of a key
        K k = data[i];
        push(k);
        if (has_prev(k)) push(prev_of(k));
        if (!is_reserved(k)) { K nx = next_of(k); if (!is_reserved(nx)) push(nx); }
        // end of the duplicate run and the gap after it
        size_t j = std::upper_bound(data.begin() + i, data.end(), k) - data.begin();
        if (j < n) {
            K nk = data[j];
            if constexpr (std::is_floating_point_v<K>) push(K(k / 2 + nk / 2));
            else push(K(k + K((std::make_unsigned_t<K>(nk) - std::make_unsigned_t<K>(k)) / 2)));
        }
    };
    // distinct keys: all of them when few, otherwise a seeded sample plus the first and last few
    std::vector<size_t> firsts;
    if (n <= 4 * o.max_sampled) {
        for (size_t i = 0; i < n; ++i) if (i == 0 || data[i] != data[i - 1]) firsts.push_back(i);
    }
    if (!firsts.empty() && firsts.size() <= o.max_sampled) {
        for (size_t i : firsts) visit(i);
    } else {
        auto first_of = [&](size_t i) { return size_t(std::lower_bound(data.begin(), data.begin() + i + 1, data[i]) - data.begin()); };
        for (size_t t = 0; t < o.max_sampled; ++t) visit(first_of(r.below(n)));
        for (size_t i = 0; i < std::min<size_t>(n, 24); ++i) { visit(first_of(i)); visit(first_of(n - 1 - i)); }
        // around the chunk seams of every possible chunk count
        if (n >= (size_t(1) << 15))
            for (size_t c = 2; c <= 20; ++c)
                for (size_t s = 1; s < c; ++s)
                    for (size_t d = 0; d < 3; ++d) { size_t i = s * (n / c) + d - 1; if (i < n) visit(first_of(i)); }
    }
    // extremes
    K lo = std::numeric_limits<K>::lowest();
    K first = data.front(), last = data.back();
    if (has_prev(first) && near_ok(prev_of(first))) push(prev_of(first));
    if (!is_reserved(last)) { K nx = next_of(last); if (!is_reserved(nx) && near_ok(nx)) push(nx); }
    if (o.far) {
        if (near_ok(lo)) push(lo);
        K top;
        if constexpr (std::is_floating_point_v<K>) top = std::numeric_limits<K>::max();
        else top = K(std::numeric_limits<K>::max() - 1);
        if (near_ok(top)) push(top);
        // 2^k away from a few keys
        for (int t = 0; t < 24; ++t) {
            K k = data[r.below(n)];
            unsigned b = (unsigned) r.below(sizeof(K) * 8);
            if constexpr (std::is_floating_point_v<K>) {
                K d = (K) std::ldexp((K) 1, (int) b - 10);
                if (near_ok(K(k + d))) push(K(k + d));
                if (near_ok(K(k - d))) push(K(k - d));
            } else {
                using UK = std::make_unsigned_t<K>;
                UK d = UK(UK(1) << b);
                UK room_up = UK(UK(std::numeric_limits<K>::max()) - UK(k));
                UK room_dn = UK(UK(k) - UK(lo));
                if (d < room_up) push(K(UK(k) + d));
                if (d <= room_dn) push(K(UK(k) - d));
            }
        }
    }
    return q;
}

// ---- the search contract (C01, C02; reused by C08-C10, C18) ----------------------------------------------------------

enum ContractClauses : unsigned {
    CL_RANGE = 1,       ///< lo <= hi <= n, hi - lo <= 2*eps+2
    CL_LO_LE_POS = 2,   ///< lo <= pos
    CL_FIRST_OCC = 4,   ///< present key: first occurrence in [lo, hi)
    CL_LOWER_BOUND = 8  ///< lower_bound restricted to [lo,hi) == global lower_bound
};

struct Approx { size_t pos, lo, hi; };

template<typename K>
std::string key_text(K k) { return sim::ld_to_text((long double) k); }

/// Checks one query result. Returns false (and fills out) on the first violated clause.
template<typename K>
bool check_contract(const std::vector<K> &data, K q, const Approx &r, size_t eps, unsigned clauses, Outcome &out) {
    const size_t n = data.size();
    auto describe = [&](const char *what) {
        return std::string(what) + ": q=" + key_text(q) + " pos=" + std::to_string(r.pos) + " lo=" + std::to_string(r.lo) +
               " hi=" + std::to_string(r.hi) + " n=" + std::to_string(n) + " eps=" + std::to_string(eps);
    };
    std::string focus = "Q " + key_text(q);
    if (clauses & CL_RANGE) {
        if (!(r.lo <= r.hi && r.hi <= n)) { out.fail("range-order", describe("lo <= hi <= n violated"), focus); return false; }
        if (r.hi - r.lo > 2 * eps + 2) { out.fail("range-width", describe("hi - lo > 2*eps+2"), focus); return false; }
    }
    if ((clauses & CL_LO_LE_POS) && !(r.lo <= r.pos)) { out.fail("lo-le-pos", describe("lo <= pos violated"), focus); return false; }
    size_t g = std::lower_bound(data.begin(), data.end(), q) - data.begin();
    bool present = g < n && data[g] == q;
    if ((clauses & CL_FIRST_OCC) && present) {
        if (!(r.lo <= g && g < r.hi)) {
            out.fail("first-occurrence-outside", describe("first occurrence not in [lo,hi)") + " first=" + std::to_string(g), focus);
            return false;
        }
    }
    if (clauses & CL_LOWER_BOUND) {
        if (r.lo <= r.hi && r.hi <= n) {
            size_t l = std::lower_bound(data.begin() + r.lo, data.begin() + r.hi, q) - data.begin();
            if (l != g) {
                out.fail("lower-bound-mismatch", describe("restricted lower_bound != global") + " restricted=" + std::to_string(l) + " global=" + std::to_string(g), focus);
                return false;
            }
        } else { out.fail("range-order", describe("lo <= hi <= n violated"), focus); return false; }
    }
    return true;
}

/// Queries for a run: explicit Q lines when qmode == explicit, the generated families otherwise.
template<typename K>
std::vector<K> queries_for(const PlanText &p, const std::vector<K> &data, bool far_default = true) {
    std::vector<K> q;
    if (p.get("qmode", "auto") == "explicit") {
        for (long double v : p.queries) q.push_back((K) v);
        return q;
    }
    QueryOpts o;
    o.qseed = p.get_u("qseed", 1);
    o.max_sampled = (size_t) p.get_u("qmax", 2000);
    o.far = p.get_u("qfar", far_default ? 1 : 0) != 0;
    if (p.has("qfarlimit")) o.far_limit = sim::text_to_ld(p.get("qfarlimit"));
    q = make_queries(data, o);
    for (long double v : p.queries) q.push_back((K) v);
    return q;
}

/// Generates the key sequence of a plan. Returns the motif signature.
template<typename K>
std::string gen_keys_into(PlanText &p, size_t n, size_t eps, int chunks, Rng &cfg, Rng &work, bool short_segments = false) {
    gen::KeyMap<K> km;
    km.draw(cfg);
    // VERIF_NO_AVOID=1 generates inside the predicates of the known findings too (exploration only, never registered)
    static const bool no_avoid = std::getenv("VERIF_NO_AVOID") != nullptr;
    km.allow_zero = no_avoid;
    gen::KeyGenParams kp;
    kp.n = n; kp.U = km.U; kp.eps = eps; kp.chunks = chunks; kp.short_segments = short_segments;
    std::string sig;
    auto pos = gen::gen_positions(kp, cfg, work, sig);
    if (short_segments) sig += "shortseg+";
    if (std::is_same_v<K, double> && !no_avoid) gen::cap_runs(pos, 300, km.U);
    p.keys.clear();
    p.keys.reserve(pos.size());
    for (uint64_t u : pos) p.keys.push_back((long double) km.at(u));
    if (gen::KeyMap<K>::floating) {
        sig += km.describe() + "+";
        // exact tier: queries stay within 2^20 of the data
        p.set("qfarlimit", "1048576");
    }
    return sig;
}

/// Fills a plan with a scale-slot recipe suited to (key type, epsilon). Returns the motif signature.
template<typename K>
std::string set_scale_recipe(PlanText &p, size_t eps, Rng &cfg, Rng &work, bool allow_16m, bool float_slopes = false, bool convex_only = false) {
    gen::KeyMap<K> km;
    p.keys.clear();
    uint64_t seed = work.next() >> 1;
    unsigned kind = (unsigned) cfg.below(allow_16m ? 4 : 3);
    if (float_slopes && cfg.chance(500)) kind = 0; // single-precision slopes: the long segment is where their precision matters
    if (km.U < (uint64_t(1) << 36)) kind = 2; // small universes cannot hold millions of distinct keys: many-segments walk
    if (sizeof(K) == 8 && (scale_cheap_only || convex_only || cfg.chance(250))) kind = 9; // smooth convex sequence
    if (convex_only && sizeof(K) < 8) { p.set("scale", 0); return gen_keys_into<K>(p, (size_t) cfg.range(1, 3000), eps, 1, cfg, work); }
    if (scale_cheap_only && sizeof(K) < 8) { p.set("scale", 0); return gen_keys_into<K>(p, (size_t) cfg.range(1, 3000), eps, 1, cfg, work); }
    std::string sig;
    if (kind == 0) {          // one segment spanning more than 2^23 positions (single construction thread)
        size_t n = (size_t) cfg.range(8450000, 9600000);
        uint64_t step = cfg.range(1, 200), jitter = cfg.coin() ? 0 : std::min<uint64_t>(step * eps / 2, step * 40);
        if ((step & (step - 1)) == 0 && cfg.chance(800)) step += 1 + 2 * cfg.below(3); // powers of two make every slope exact in binary
        p.set("recipe", "linear " + std::to_string(n) + " " + std::to_string(seed) + " " + std::to_string(step) + " " + std::to_string(jitter) + " 0");
        p.set("procs", 1); p.set("maxthreads", 1);
        sig = "scale-linear+";
    } else if (kind == 9) {   // more than 2^16 points in convex position within one band (the builder reserves 2^16 hull entries)
        size_t n = (size_t) cfg.range(scale_cheap_only ? 90000 : 110000, scale_cheap_only ? 160000 : 400000);
        bool grow = cfg.coin();
        uint64_t delta = cfg.chance(700) ? 1 : cfg.range(1, 4);
        uint64_t gap0 = (uint64_t(1) << cfg.range(26, 33)) + cfg.range(0, uint64_t(1) << 20); // the larger, the flatter: one band holds them all
        p.set("recipe", "convex " + std::to_string(n) + " " + std::to_string(seed) + " " + std::to_string(gap0) + " " + std::to_string(delta) + " " + (grow ? "1" : "0"));
        p.set("procs", 1); p.set("maxthreads", 1);
        p.set("recipe_start", cfg.coin() ? cfg.range(0, 100000) : (uint64_t(1) << cfg.range(30, 60)) + cfg.range(0, 100000)); // near / far from the origin
        p.set("qmax", 20000);
        p.set("scale", 1);
        return "scale-convex+";
    } else if (kind == 1) {   // skewed: many short segments, one covering most positions, many short segments again
        size_t head = (size_t) cfg.range(300000, 900000), ap = (size_t) cfg.range(2000000, 6000000), tail = (size_t) cfg.range(100000, 300000);
        p.set("recipe", "skewed " + std::to_string(head + ap + tail) + " " + std::to_string(seed) + " " + std::to_string(head) + " " + std::to_string(cfg.range(1, 50)) + " " + std::to_string(tail));
        sig = "scale-skewed+";
    } else if (kind == 2) {   // very many segments
        size_t n = (size_t) cfg.range(250000, 900000);
        unsigned gb = km.U < (uint64_t(1) << 36) ? 8 : 30;
        p.set("recipe", "walk " + std::to_string(n) + " " + std::to_string(seed) + " " + std::to_string(gb) + " 0 0");
        sig = "scale-walk+";
    } else {                  // more than 2^24 keys in many short segments (a single segment spanning 2^24 positions is outside the
                              // stated domain of float slopes; absolute positions above 2^24 are not)
        size_t n = (size_t) cfg.range(16900000, 17600000);
        p.set("recipe", "walk " + std::to_string(n) + " " + std::to_string(seed) + " 8 0 0");
        sig = "scale-walk16m+";
    }
    p.set("recipe_start", cfg.range(0, 100000));
    p.set("qmax", 150000);
    p.set("scale", 1);
    return sig;
}

/// Input predicates shared by all classes (keys of known findings, DESIGN.md 9).
template<typename K>
std::string common_preds(const std::vector<K> &data) {
    std::string s;
    if (data.empty()) return s;
    if constexpr (std::is_integral_v<K>) {
        if (data.back() == K(std::numeric_limits<K>::max() - 1)) s += "last-key-max-1,";
    }
    if (data.size() == 1) s += "n1,";
    if constexpr (std::is_floating_point_v<K>) {
        size_t run = 1, maxrun = 1;
        bool zero_run_or_last = data.back() == 0;
        for (size_t i = 1; i < data.size(); ++i) {
            if (data[i] == data[i - 1]) { ++run; if (data[i] == 0) zero_run_or_last = true; } else run = 1;
            if (run > maxrun) maxrun = run;
        }
        if (zero_run_or_last) s += "float-zero,";
        if (sizeof(K) == 8 && maxrun >= 1024) s += "double-long-run,";
    }
    return s;
}

inline std::string abbreviate_plan(const PlanText &p) {
    std::string s = p.get("cfg") + (p.has("recipe") ? " recipe=[" + p.get("recipe") + "]" : "") + " n=" + std::to_string(p.keys.size()) + " procs=" + p.get("procs") + " maxthreads=" + p.get("maxthreads") +
                    " grants=" + p.get("grants") + " preempt=" + p.get("preempt") + " yield_every=" + p.get("yield_every") + " motifs=" + p.get("motifs") + " keys=[";
    for (size_t i = 0; i < p.keys.size() && i < 6; ++i) s += (i ? "," : "") + sim::ld_to_text(p.keys[i]);
    if (p.keys.size() > 6) s += ",...," + sim::ld_to_text(p.keys.back());
    s += "]";
    return s;
}

}
