// Engine A (buildsim) main: picks a configuration for the property being checked, generates a plan, executes it.
#include "a_common.hpp"
#include "../sim/main.hpp"

namespace ea {

/// Which classes serve which property.
static bool cls_serves(const std::string &cls, const CfgEntry &e, const std::string &prop) {
    if (prop == "C01" || prop == "C02") return cls == "pgm";
    if (prop == "C07") return cls == "pgm" && e.epsrec > 0;
    if (prop == "C03") return cls == "seg";
    if (prop == "C04") return (cls == "seg" || cls == "pgm") && !e.floating_key;
    if (prop == "C08") return cls == "comp";
    if (prop == "C09") return cls == "buck";
    if (prop == "C10") return cls == "ef";
    if (prop == "C18") return cls == "cwrap";
    if (prop == "C19") return cls == "pgm" || cls == "comp" || cls == "buck" || cls == "ef" || cls == "md";
    if (prop == "C20") return cls != "cwrapdyn";
    if (prop == "C17") return true;
    return false;
}

struct EngineA {
    static constexpr const char *name = "buildsim";
    sim::Options opt;
    std::vector<const CfgEntry *> menu;
    bool tsan = false;

    void configure(const sim::Options &o) {
        opt = o;
#if defined(__SANITIZE_THREAD__)
        tsan = true;
#endif
        menu.clear();
        std::vector<const CfgEntry *> all;
        for (auto &e : registry()) all.push_back(&e);
        std::sort(all.begin(), all.end(), [](auto a, auto b) { return a->name < b->name; }); // registration order is link order
        for (auto e : all) if (cls_serves(e->cls, *e, o.prop)) menu.push_back(e);
    }

    PlanText generate(uint64_t run_seed, uint64_t run_index, Stats &st) {
        if (menu.empty()) { std::fprintf(stderr, "buildsim: no configuration serves %s\n", opt.prop.c_str()); std::exit(2); }
        Rng pick = sim::stream(run_seed, "menu");
        const CfgEntry *e = menu[pick.below(menu.size())];
        GenCtx g{run_seed, run_index, opt.prop, opt.tier, opt.profile, tsan};
        if (scale_slot(g) && pick.coin()) {
            // scale slots: half of them go to the configurations whose scale recipes reach furthest for this property
            std::vector<const CfgEntry *> pref;
            for (auto c : menu) {
                bool k64 = c->name.find(":i64") != std::string::npos || c->name.find(":u64") != std::string::npos;
                bool k32 = c->name.find(":i32") != std::string::npos || c->name.find(":u32") != std::string::npos;
                if ((opt.prop == "C03" || opt.prop == "C04" || opt.prop == "C17") && k64 && (c->cls == "seg" || c->cls == "pgm")) pref.push_back(c);
                if (opt.prop == "C19" && (k64 || k32) && c->eps <= 8 && (c->cls == "comp" || c->cls == "ef")) pref.push_back(c);
            }
            if (!pref.empty()) e = pref[pick.below(pref.size())];
        }
        PlanText p = e->gen(*e, g, st);
        p.set("seed", run_seed);
        return p;
    }

    Outcome execute(const PlanText &p, Stats &st) {
        const CfgEntry *e = find_cfg(p.get("cfg"));
        if (!e) { Outcome o; o.fail("bad-plan", "unknown cfg " + p.get("cfg")); return o; }
        RunCtx rc{p.get("prop", opt.prop), p.get("profile", opt.profile)};
        st.inc("cfg." + e->cls);
        st.mark("configs", sim::hash_str(e->name.c_str()));
        Outcome out = e->run(*e, p, rc, st);
        if (rc.prop == "C17" && !out.ok) {
            // C17's oracle is the memory-error detector (a report ends the process); functional clauses belong to other properties
            st.inc("c17_functional_failures_not_judged");
            Outcome ok; ok.trace_hash = out.trace_hash; ok.preds = out.preds;
            return ok;
        }
        return out;
    }
};

}

int main(int argc, char **argv) {
    if (argc > 1 && std::string(argv[1]) == "--list") {
        for (auto &e : ea::registry()) std::printf("%s\n", e.name.c_str());
        return 0;
    }
    return sim::sim_main<ea::EngineA>(argc, argv);
}
