#include "a_pgm.hpp"
// shard 4: EpsilonRecursive above the linear-scan threshold (binary-search routing), large epsilons
EA_REGISTER_PGM(uint32_t, 2, 65, float, f32)
EA_REGISTER_PGM(uint64_t, 4, 256, double, f64)
EA_REGISTER_PGM(int32_t, 1, 1024, float, f32)
EA_REGISTER_PGM(uint64_t, 1024, 1024, float, f32)
EA_REGISTER_PGM(int64_t, 1024, 0, double, f64)
EA_REGISTER_PGM(uint16_t, 2, 256, float, f32)
