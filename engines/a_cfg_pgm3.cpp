#include "a_pgm.hpp"
// shard 3: 64-bit keys
EA_REGISTER_PGM(uint64_t, 1, 0, double, f64)
EA_REGISTER_PGM(uint64_t, 8, 4, float, f32)
EA_REGISTER_PGM(int64_t, 1, 1, double, f64)
EA_REGISTER_PGM(int64_t, 3, 2, float, f32)
EA_REGISTER_PGM(uint64_t, 16, 65, float, f32)
EA_REGISTER_PGM(int64_t, 64, 4, double, f64)
