#include "d_readers.hpp"
using namespace ed;
using B1 = pgm::BucketingPGMIndex<uint32_t, 4, 64, 0, float>;
using B2 = pgm::BucketingPGMIndex<uint64_t, 8, 100, 32, float>;
ED_REGISTER("rd-buck:u32:e4:t64", "rd-buck", SearchReaders<uint32_t, B1, 4>)
ED_REGISTER("rd-buck:u64:e8:t100", "rd-buck", SearchReaders<uint64_t, B2, 8>)
using E1 = pgm::EliasFanoPGMIndex<uint32_t, 4, float>;
using E2 = pgm::EliasFanoPGMIndex<uint64_t, 16, float>;
ED_REGISTER("rd-ef:u32:e4", "rd-ef", SearchReaders<uint32_t, E1, 4>)
ED_REGISTER("rd-ef:u64:e16", "rd-ef", SearchReaders<uint64_t, E2, 16>)
ED_REGISTER("rd-mapped:u32:e4", "rd-mapped", MappedReaders<uint32_t, 4>)
ED_REGISTER("rd-mapped:i64:e16", "rd-mapped", MappedReaders<int64_t, 16>)
