#include "c_mapped.hpp"
EC_REGISTER_MAPPED(uint32_t, 4, 2, float, f32)
EC_REGISTER_MAPPED(int32_t, 1, 0, float, f32)
EC_REGISTER_MAPPED(uint64_t, 8, 4, float, f32)
EC_REGISTER_MAPPED(int64_t, 2, 1, double, f64)
