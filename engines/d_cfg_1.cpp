#include "d_readers.hpp"
using namespace ed;
using P1 = pgm::PGMIndex<uint32_t, 4, 2, float>;
using P2 = pgm::PGMIndex<int64_t, 1, 65, double>;
using P3 = pgm::PGMIndex<uint64_t, 16, 0, float>;
ED_REGISTER("rd-pgm:u32:e4:r2", "rd-pgm", SearchReaders<uint32_t, P1, 4>)
ED_REGISTER("rd-pgm:i64:e1:r65", "rd-pgm", SearchReaders<int64_t, P2, 1>)
ED_REGISTER("rd-pgm:u64:e16:r0", "rd-pgm", SearchReaders<uint64_t, P3, 16>)
using P4 = pgm::PGMIndex<uint64_t, 1, 0, float>;
ED_REGISTER("rd-pgm:u64:e1:r0", "rd-pgm", SearchReaders<uint64_t, P4, 1>)
using C1 = pgm::CompressedPGMIndex<uint32_t, 4, 2, float>;
using C2 = pgm::CompressedPGMIndex<uint64_t, 8, 256, float>;
ED_REGISTER("rd-comp:u32:e4:r2", "rd-comp", SearchReaders<uint32_t, C1, 4>)
ED_REGISTER("rd-comp:u64:e8:r256", "rd-comp", SearchReaders<uint64_t, C2, 8>)
