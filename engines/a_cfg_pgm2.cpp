#include "a_pgm.hpp"
// shard 2: 32-bit keys
EA_REGISTER_PGM(uint32_t, 1, 1, float, f32)
EA_REGISTER_PGM(uint32_t, 4, 2, float, f32)
EA_REGISTER_PGM(int32_t, 2, 0, float, f32)
EA_REGISTER_PGM(int32_t, 8, 4, double, f64)
EA_REGISTER_PGM(uint32_t, 64, 16, float, f32)
EA_REGISTER_PGM(int32_t, 128, 64, float, f32)
