#include "a_pgm.hpp"
// PGMIndex menu, shard 1: small key types and small epsilons
EA_REGISTER_PGM(uint8_t, 1, 1, float, f32)
EA_REGISTER_PGM(int8_t, 2, 0, float, f32)
EA_REGISTER_PGM(uint16_t, 3, 0, float, f32)
EA_REGISTER_PGM(int16_t, 4, 2, double, f64)
EA_REGISTER_PGM(uint16_t, 16, 4, float, f32)
EA_REGISTER_PGM(uint8_t, 8, 4, double, f64)
