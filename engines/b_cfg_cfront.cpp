#include "b_cfront.hpp"
using u32ptr = uint32_t *;
EB_REGISTER_CDYN(int32)
EB_REGISTER_CDYN(int64)
EB_REGISTER_CDYN(uint32)
EB_REGISTER_DYNENUM(uint32_t, uint32_t, 4)
EB_REGISTER_DYNENUM(int64_t, std::string, 16)
EB_REGISTER_DYNENUM(uint16_t, u32ptr, 1)
