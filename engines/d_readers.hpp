// Engine D (readsim): 2..16 reader tasks issuing query scripts against one object of each index class, interleaved by the
// seeded baton scheduler at operation, iterator-step and in-query (hook H2) yield points — C16.
// Oracles: (1) ThreadSanitizer flavour: zero race reports (the baton is invisible to TSan, so any pair of conflicting
// accesses by two readers is reported on every schedule in which both occur); (2) every call returns exactly what it
// returns in a solo pass before the readers start and in a second solo pass after they finish.
#pragma once
#include "a_common.hpp"
#include "b_dynamic.hpp"
#include <unistd.h>
#include <sys/stat.h>
#include "pgm/pgm_index.hpp"
#include "pgm/pgm_index_dynamic.hpp"
#include "pgm/pgm_index_variants.hpp"
#include <pthread.h>
#include <tuple>

namespace ed {

using namespace ea;

/// One object under test plus the way to run the i-th operation of a script against it. exec() must be callable from
/// any number of threads at once: it only calls query operations of the library and keeps its working state in locals.
struct Subject {
    virtual ~Subject() {}
    virtual uint64_t exec(uint64_t opseed) = 0;
    virtual size_t size() const = 0;
};

inline void step_yield() { sim_yield(); }

inline std::string reader_scratch_file() {
    std::string base = access("/dev/shm", W_OK) == 0 ? "/dev/shm" : "/verif/build";
    return base + "/pgmverif-readers-" + std::to_string(getpid()) + ".pgm";
}

template<typename K, typename Index>
struct SearchSubject : Subject {
    std::vector<K> data, queries;
    std::unique_ptr<Index> idx;
    SearchSubject(const std::vector<K> &d, const std::vector<K> &q) : data(d), queries(q), idx(new Index(data.begin(), data.end())) {}
    uint64_t exec(uint64_t s) override {
        K q = queries[s % queries.size()];
        auto r = idx->search(q);
        step_yield();
        size_t lb = std::lower_bound(data.begin() + std::min(r.lo, data.size()), data.begin() + std::min(r.hi, data.size()), q) - data.begin();
        return (uint64_t) r.pos * 1000003u + r.lo * 10007u + r.hi * 101u + lb;
    }
    size_t size() const override { return data.size(); }
};

template<typename K, size_t E>
struct MappedSubject : Subject {
    using Index = pgm::MappedPGMIndex<K, E, 4, float>;
    std::vector<K> data, queries;
    std::string file;
    std::unique_ptr<Index> idx;
    MappedSubject(const std::vector<K> &d, const std::vector<K> &q) : data(d), queries(q), file(reader_scratch_file()) {
        Index create(data.begin(), data.end(), file); // written by one container ...
        (void) create;
        idx.reset(new Index(file));                   // ... and reopened: the readers share the reopened one
    }
    ~MappedSubject() { idx.reset(); std::remove(file.c_str()); }
    uint64_t exec(uint64_t s) override {
        K q = queries[s % queries.size()];
        switch ((s >> 32) % 4) {
            case 0: return (uint64_t) (idx->lower_bound(q) - idx->begin());
            case 1: return (uint64_t) (idx->upper_bound(q) - idx->begin()) + 7;
            case 2: return idx->count(q) + 13;
            default: return idx->contains(q) ? 3 : 5;
        }
    }
    size_t size() const override { return data.size(); }
};

template<typename K, typename V, size_t PE>
struct DynamicSubject : Subject {
    using Dyn = pgm::DynamicPGMIndex<K, V, pgm::PGMIndex<K, PE>>;
    using VM = eb::ValueMap<V>;
    std::vector<K> keys;
    std::unique_ptr<Dyn> d;
    using DynIt = decltype(std::declval<const Dyn &>().begin());
    std::unique_ptr<DynIt> shared_it; ///< an iterator advanced by the constructing thread; readers copy it and advance their copies
    DynamicSubject(const std::vector<K> &data, uint64_t seed) {
        Rng r(seed);
        std::vector<std::pair<K, V>> bulk;
        uint64_t id = 1;
        for (size_t i = 0; i < data.size(); ++i) if (i == 0 || data[i] != data[i - 1]) bulk.emplace_back(data[i], VM::make(id++));
        size_t half = bulk.size() / 2;
        d.reset(new Dyn(bulk.begin(), bulk.begin() + half, (uint8_t) (1u << r.range(1, 4)), (uint8_t) r.below(3), (uint8_t) r.range(1, 4)));
        // the rest arrives through updates, single-threaded, before the readers exist: several levels, tombstones
        for (size_t i = half; i < bulk.size(); ++i) d->insert_or_assign(bulk[i].first, bulk[i].second);
        for (size_t i = 0; i < bulk.size(); i += 3) d->erase(bulk[i].first);
        for (size_t i = 0; i < bulk.size(); i += 9) d->insert_or_assign(bulk[i].first, VM::make(id++));
        for (auto &kv : bulk) keys.push_back(kv.first);
        if (keys.empty()) keys.push_back(K(1));
        {
            const Dyn &cd = *d;
            shared_it.reset(new DynIt(cd.lower_bound(keys[keys.size() / 3])));
            auto end = cd.end();
            for (int i = 0; i < 3 && *shared_it != end; ++i) ++*shared_it;
        }
    }
    uint64_t exec(uint64_t s) override {
        K k = keys[s % keys.size()];
        if ((s >> 20) % 3 == 0 && !is_reserved(K(k + 1))) k = K(k + 1); // never the reserved maximum
        switch ((s >> 32) % 7) {
            case 6: return 17 + d->size() * 2 + (d->empty() ? 1 : 0); // const observers, first called by whoever comes first
            case 5: { // a private copy of the shared, already advanced iterator, walked a few steps and dropped
                DynIt it(*shared_it);
                uint64_t h = 13;
                auto end = d->end();
                for (int i = 0; i < 5 && it != end; ++i) { h = h * 1000003 + VM::digest(it->second); step_yield(); ++it; }
                return h;
            }
            case 0: { auto it = d->find(k); return it == d->end() ? 1 : VM::digest(it->second) * 31 + 2; }
            case 1: return d->count(k) + 3;
            case 2: { // lower_bound + iteration
                auto it = d->lower_bound(k);
                uint64_t h = 5;
                auto end = d->end();
                for (int i = 0; i < 6 && it != end; ++i) { h = h * 1000003 + VM::digest(it->second); step_yield(); ++it; }
                return h;
            }
            case 3: { K hi = keys[(s >> 8) % keys.size()]; if (hi < k) std::swap(hi, k); auto v = d->range(k, hi); uint64_t h = 7 + v.size(); if (!v.empty()) h = h * 31 + VM::digest(v.back().second); return h; }
            default: { uint64_t h = 11; int i = 0; auto end = d->end(); for (auto it = d->begin(); it != end && i < 8; ++it, ++i) { h = h * 1000003 + VM::digest(it->second); step_yield(); } return h; }
        }
    }
    size_t size() const override { return keys.size(); }
};

#ifdef MORTON_ND_BMI2_ENABLED
template<uint8_t D, typename T, size_t E>
struct MdSubject : Subject {
    using Index = pgm::MultidimensionalPGMIndex<D, T, E>;
    using Point = typename Index::value_type;
    std::vector<Point> pts;
    std::unique_ptr<Index> idx;
    T side;
    template<size_t... I> static Point mk(Rng &r, T side, std::index_sequence<I...>) { return Point{((void) I, T(r.range(0, side)))...}; }
    MdSubject(size_t n, uint64_t seed) {
        Rng r(seed);
        side = T(r.coin() ? 15 : 1000);
        for (size_t i = 0; i < n; ++i) pts.push_back(mk(r, side, std::make_index_sequence<D>()));
        idx.reset(new Index(pts.begin(), pts.end()));
    }
    uint64_t exec(uint64_t s) override {
        Rng r(s);
        if (s % 2 == 0) { Point p = r.coin() ? pts[r.below(pts.size())] : mk(r, side, std::make_index_sequence<D>()); return idx->contains(p) ? 3 : 5; }
        Point a = mk(r, side, std::make_index_sequence<D>()), b = mk(r, side, std::make_index_sequence<D>());
        Point lo, hi;
        minmax(a, b, lo, hi, std::make_index_sequence<D>());
        uint64_t h = 7; size_t budget = pts.size() + 2;
        size_t steps = 0;
        for (auto it = idx->range(lo, hi); it != idx->end() && budget--; ++it) { h = h * 1000003 + std::get<0>(*it); if (steps++ < 16 || steps % 64 == 0) step_yield(); }
        return h;
    }
    template<size_t... I> static void minmax(const Point &a, const Point &b, Point &lo, Point &hi, std::index_sequence<I...>) {
        ((std::get<I>(lo) = std::min(std::get<I>(a), std::get<I>(b)), std::get<I>(hi) = std::max(std::get<I>(a), std::get<I>(b))), ...);
    }
    size_t size() const override { return pts.size(); }
};
#endif

struct ReaderArg {
    Subject *subject;
    int task_id;
    uint64_t script_seed;
    size_t script_len;
    std::vector<uint64_t> *results;
    uint64_t preempted_mid_script;
};

inline void run_script(Subject &s, uint64_t script_seed, size_t len, std::vector<uint64_t> &out) {
    Rng r(script_seed);
    out.clear();
    out.reserve(len);
    for (size_t i = 0; i < len; ++i) {
        out.push_back(s.exec(r.next()));
        step_yield(); // between two operations of the script
    }
}

inline void *reader_main(void *p) {
    auto *a = static_cast<ReaderArg *>(p);
    sim_task_begin(a->task_id);
    sim::t_ctx.yield_in_query = true; // hook H2 is a yield point inside queries
    uint64_t sw0 = sim_stat_switches();
    run_script(*a->subject, a->script_seed, a->script_len, *a->results);
    a->preempted_mid_script = sim_stat_switches() - sw0;
    sim::t_ctx.yield_in_query = false;
    sim_task_end(a->task_id);
    return nullptr;
}

using SubjectFactory = Subject *(*)(const PlanText &p);

inline PlanText gen_readers(const CfgEntry &ce, const GenCtx &g, Stats &st, size_t eps, bool needs_keys, PlanText (*keygen)(PlanText, size_t, size_t, Rng &, Rng &), bool allow_scale = true) {
    PlanText p;
    Rng cfg = sim::stream(g.run_seed, "cfg"), work = sim::stream(g.run_seed, "work"), sched = sim::stream(g.run_seed, "sched");
    p.set("engine", "readsim");
    p.set("prop", g.prop);
    p.set("cfg", ce.name);
    p.set("procs", 1); p.set("maxthreads", 1); p.set("grants", "0"); // construction is not the subject here
    static const unsigned pp[] = {5, 20, 100, 300};
    p.set("preempt", pp[sched.below(4)]);
    p.set("yield_every", 1);
    p.set("schedseed", sched.next() >> 1);
    p.set("readers", g.profile == "boundary" ? 2 : sched.range(2, 16));
    p.set("script_len", g.tsan ? cfg.range(5, 60) : cfg.range(5, 200));
    p.set("script_seed", work.next() >> 1);
    p.set("qseed", work.next() >> 1);
    p.set("qmax", 300);
    { Rng c = sim::stream(g.run_seed, "cold"); p.set("cold", c.chance(600) ? 1 : 0); } // most runs: the readers are the object's first callers
    size_t n = g.profile == "boundary" ? (size_t) cfg.range(1, 4) : (cfg.chance(60) ? (size_t) cfg.range(20000, g.tsan ? 40000 : 100000) : (size_t) cfg.range(1, 3000));
    // scale slot (every flavour, every 256th run of a worker and its third): an object with several hundred thousand keys, i.e.
    // tens of thousands of segments (one-level indexes above 2^16 segments), few operations per reader
    bool scale = allow_scale && g.profile.empty() && needs_keys && ((g.run_index >> 4) % 256) == 2;
    if (scale) {
        // Epsilon 1: enough keys for well over 2^16 segments in a one-level index
        uint64_t nn = eps == 1 ? cfg.range(430000, 540000) : cfg.range(230000, 320000);
        p.set("recipe", "walk " + std::to_string(nn) + " " + std::to_string(work.next() >> 1) + " " + std::to_string(cfg.range(10, 30)) + " 0 0");
        p.set("recipe_start", cfg.range(0, 100000));
        p.set("scale", 1);
        p.set("script_len", cfg.range(20, 60));
        p.set("readers", sched.range(2, 6));
        p.set("motifs", "scale-walk+");
        return p;
    }
    if (needs_keys) p = keygen(p, n, eps, cfg, work);
    else p.set("n", n);
    (void) st;
    return p;
}

inline Outcome run_readers(const CfgEntry &ce, const PlanText &p, Stats &st, SubjectFactory make) {
    Outcome out;
    Trace tr;
    sim::Env env = env_from_plan(p);
    size_t R = (size_t) std::min<uint64_t>(std::max<uint64_t>(p.get_u("readers", 2), 1), 16);
    size_t len = (size_t) p.get_u("script_len", 20);
    uint64_t sseed = p.get_u("script_seed", 1);
    std::vector<std::vector<uint64_t>> solo1(R), conc(R), solo2(R);
    const bool cold = p.get_u("cold", 0) != 0;
    std::unique_ptr<Subject> subj;
    if (cold) {
        // cold object: the concurrent readers are the first callers of any query operation on it (lazily initialised or
        // cached state would be set up by them). The run-alone answers come from an identically constructed twin (same plan,
        // same simulated environment from its start), which is destroyed before the shared object is built.
        sim::begin_run(env);
        try { subj.reset(make(p)); }
        catch (const std::exception &e) { sim::end_run(); out.fail("ctor-exception", std::string("constructing the shared object threw: ") + e.what()); out.trace_hash = tr.h; return out; }
        for (size_t r = 0; r < R; ++r) run_script(*subj, sim::mix(sseed, r), len, solo1[r]);
        subj.reset();
        sim::end_run();
        st.inc("cold_object_runs");
    }
    sim::begin_run(env); // readers are interleaved by the same scheduler; construction happens here, single-threaded
    try { subj.reset(make(p)); }
    catch (const std::exception &e) { sim::end_run(); out.fail("ctor-exception", std::string("constructing the shared object threw: ") + e.what()); out.trace_hash = tr.h; return out; }
    // solo pass 1 (warm object)
    if (!cold) for (size_t r = 0; r < R; ++r) run_script(*subj, sim::mix(sseed, r), len, solo1[r]);
    // concurrent readers: created after construction, joined before destruction (the only edges TSan sees)
    std::vector<ReaderArg> args(R);
    std::vector<pthread_t> th(R);
    std::vector<int> ids(R);
    pthread_attr_t attr;
    pthread_attr_init(&attr);
    pthread_attr_setstacksize(&attr, 1 << 20);
    for (size_t r = 0; r < R; ++r) {
        ids[r] = sim_task_register();
        args[r] = ReaderArg{subj.get(), ids[r], sim::mix(sseed, r), len, &conc[r], 0};
        if (pthread_create(&th[r], &attr, reader_main, &args[r]) != 0) { std::fprintf(stderr, "pthread_create failed\n"); std::abort(); }
    }
    pthread_attr_destroy(&attr);
    sim_wait_tasks(ids.data(), (int) R);
    for (size_t r = 0; r < R; ++r) { pthread_join(th[r], nullptr); sim_task_release(ids[r]); }
    // solo pass 2
    for (size_t r = 0; r < R; ++r) run_script(*subj, sim::mix(sseed, r), len, solo2[r]);
    uint64_t switches = sim_stat_switches();
    tr.add(sim_stat_decision_hash());
    st.inc("sim.yield_points", sim_stat_yield_points());
    st.inc("fault.preempt", switches);
    st.inc("sim.scheduler_steps", sim_stat_yield_points() + switches);
    st.inc("sim.reader_tasks", R);
    sim::end_run();
    size_t preempted_readers = 0;
    for (auto &a : args) if (a.preempted_mid_script > 0) ++preempted_readers;
    for (size_t r = 0; r < R && out.ok; ++r) {
        for (auto v : conc[r]) tr.add(v);
        if (conc[r] != solo1[r]) {
            size_t i = 0; while (i < conc[r].size() && i < solo1[r].size() && conc[r][i] == solo1[r][i]) ++i;
            out.fail("concurrent-answer-differs", "reader " + std::to_string(r) + " of " + std::to_string(R) + ": operation " + std::to_string(i) + " returned something else than when run alone");
        } else if (solo2[r] != solo1[r]) {
            size_t i = 0; while (i < solo2[r].size() && i < solo1[r].size() && solo2[r][i] == solo1[r][i]) ++i;
            out.fail("second-solo-pass-differs", "script " + std::to_string(r) + ": operation " + std::to_string(i) + " answers differently after the readers ran (a query path left state behind)");
        }
    }
    if (R >= 2) st.inc("sim_active_runs");
    if (preempted_readers >= 2) st.mark("nontrivial", tr.h);
    st.max("max_readers", R);
    if (st.samples.size() < 3 && st.counters["runs"] % 20 == 3)
        st.samples.push_back(ce.name + " object size " + std::to_string(subj->size()) + ", " + std::to_string(R) + " readers x " + std::to_string(len) + " operations, preempt " + p.get("preempt") + " permille, " + std::to_string(switches) + " task switches");
    out.trace_hash = tr.h;
    return out;
}

template<typename K>
PlanText keygen_for(PlanText p, size_t n, size_t eps, Rng &cfg, Rng &work) {
    std::string sig = gen_keys_into<K>(p, n, eps, 1, cfg, work);
    p.set("motifs", sig);
    return p;
}

template<typename K, typename Index, size_t E>
struct SearchReaders {
    static PlanText gen(const CfgEntry &ce, const GenCtx &g, Stats &st) { return gen_readers(ce, g, st, E, true, &keygen_for<K>); }
    static Subject *make(const PlanText &p) { auto d = keys_from_plan<K>(p); if (d.empty()) d.push_back(K(1)); auto q = queries_for<K>(p, d); if (q.empty()) q.push_back(d[0]); return new SearchSubject<K, Index>(d, q); }
    static Outcome run(const CfgEntry &ce, const PlanText &p, const RunCtx &, Stats &st) { return run_readers(ce, p, st, &make); }
};
template<typename K, size_t E>
struct MappedReaders {
    static PlanText gen(const CfgEntry &ce, const GenCtx &g, Stats &st) { return gen_readers(ce, g, st, E, true, &keygen_for<K>); }
    static Subject *make(const PlanText &p) { auto d = keys_from_plan<K>(p); if (d.empty()) d.push_back(K(1)); auto q = queries_for<K>(p, d); if (q.empty()) q.push_back(d[0]); return new MappedSubject<K, E>(d, q); }
    static Outcome run(const CfgEntry &ce, const PlanText &p, const RunCtx &, Stats &st) { return run_readers(ce, p, st, &make); }
};
template<typename K, typename V, size_t PE>
struct DynamicReaders {
    static PlanText gen(const CfgEntry &ce, const GenCtx &g, Stats &st) { return gen_readers(ce, g, st, PE, true, &keygen_for<K>, false); } // no scale slot: the single-threaded preparation would dominate
    static Subject *make(const PlanText &p) { auto d = keys_from_plan<K>(p); if (d.empty()) d.push_back(K(1)); return new DynamicSubject<K, V, PE>(d, p.get_u("qseed", 1)); }
    static Outcome run(const CfgEntry &ce, const PlanText &p, const RunCtx &, Stats &st) { return run_readers(ce, p, st, &make); }
};
#ifdef MORTON_ND_BMI2_ENABLED
template<uint8_t D, typename T, size_t E>
struct MdReaders {
    static PlanText gen(const CfgEntry &ce, const GenCtx &g, Stats &st) { return gen_readers(ce, g, st, E, false, nullptr); }
    static Subject *make(const PlanText &p) { return new MdSubject<D, T, E>((size_t) std::max<uint64_t>(1, p.get_u("n", 10)), p.get_u("qseed", 1)); }
    static Outcome run(const CfgEntry &ce, const PlanText &p, const RunCtx &, Stats &st) { return run_readers(ce, p, st, &make); }
};
#endif

#define ED_CAT2(a, b) a##b
#define ED_CAT(a, b) ED_CAT2(a, b)
#define ED_REGISTER(NAME, CLS, ...)                                                                                        \
    static ::ea::Registrar ED_CAT(reg_rd_, __COUNTER__)(::ea::CfgEntry{NAME, CLS, 0, 0, false, &__VA_ARGS__::gen, &__VA_ARGS__::run});

}
