#include "a_variants.hpp"
EA_REGISTER_COMP(uint32_t, 4, 2, float, f32)
EA_REGISTER_COMP(uint32_t, 8, 0, float, f32)
EA_REGISTER_COMP(uint64_t, 1, 1, double, f64)
EA_REGISTER_COMP(uint16_t, 2, 4, float, f32)
EA_REGISTER_COMP(uint8_t, 3, 2, float, f32)
