// Engine B (histsim): DynamicPGMIndex histories against std::map (C05, C06), LSM shape through hook H3 (C15),
// lifetime steps (C19), invalid arguments as injected faults (C20). The C front end (C18) is in b_cfront.hpp.
#pragma once
#include <deque>
#include "a_common.hpp"   // registry, environment, key helpers (shared with engine A)
#include "a_static.hpp"   // churn_allocator
#include "pgm/pgm_index_dynamic.hpp"
#include <map>
#include <memory>

namespace sim { void set_poison(bool on); extern uint64_t g_poisoned_blocks; }

// Hook H3: DynamicPGMIndex befriends this struct; it only reads.
namespace pgm::verif {
struct Access {
    template<typename D> static const auto &levels(const D &d) { return d.levels; }
    template<typename D> static const auto &pgms(const D &d) { return d.pgms; }
    template<typename D> static size_t used_levels(const D &d) { return d.used_levels; }
    template<typename D> static size_t base(const D &d) { return d.base; }
    template<typename D> static size_t min_level(const D &d) { return d.min_level; }
    template<typename D> static size_t min_index_level(const D &d) { return d.min_index_level; }
    template<typename D> static size_t buffer_max_size(const D &d) { return d.buffer_max_size; }
};
}

namespace eb {

using namespace ea;
using pgm::verif::Access;

/// Reads the protected state of a PGMIndex through pointers-to-members named via a derived class.
template<typename PGMType>
struct PgmPeek : PGMType {
    static const auto &segs(const PGMType &p) { return p.*(&PgmPeek::segments); }
    static const auto &offs(const PGMType &p) { return p.*(&PgmPeek::levels_offsets); }
    static size_t count(const PGMType &p) { return p.*(&PgmPeek::n); }
    static auto first(const PGMType &p) { return p.*(&PgmPeek::first_key); }
};

// ---- values: every written value is unique so that each read is attributable to one write ---------------------------
template<typename V> struct ValueMap;
template<> struct ValueMap<uint32_t> {
    static constexpr bool has_reserved = true;
    static uint32_t make(uint64_t id) { return (uint32_t) id; }
    static uint32_t reserved() { return std::numeric_limits<uint32_t>::max(); }
    static uint64_t digest(uint32_t v) { return v; }
    static const char *name() { return "u32"; }
};
template<> struct ValueMap<int64_t> {
    static constexpr bool has_reserved = true;
    static int64_t make(uint64_t id) { return (int64_t) id - 1000; }
    static int64_t reserved() { return std::numeric_limits<int64_t>::max(); }
    static uint64_t digest(int64_t v) { return (uint64_t) v; }
    static const char *name() { return "i64"; }
};
template<> struct ValueMap<uint32_t *> {
    static constexpr bool has_reserved = false; // the tombstone is a private heap object, unreachable for callers
    static uint32_t *pool() { static std::vector<uint32_t> p(1 << 22); return p.data(); }
    static uint32_t *make(uint64_t id) { return pool() + (id & ((1 << 22) - 1)); }
    static uint32_t *reserved() { return nullptr; }
    static uint64_t digest(uint32_t *v) { return (uint64_t) (v - pool()); } // identity, never the address
    static const char *name() { return "ptr"; }
};
template<> struct ValueMap<std::string> {
    static constexpr bool has_reserved = false;
    static std::string make(uint64_t id) { return "v" + std::to_string(id); }
    static std::string reserved() { return ""; }
    static uint64_t digest(const std::string &v) { return sim::hash_str(v.c_str()); }
    static const char *name() { return "str"; }
};

/// Independent computation of the capacities from the constructor arguments (not from the container's helpers).
struct Capacities {
    size_t base, eff_buffer_level, index_level;
    size_t bl_arg = 0, il_arg = 0; ///< the constructor arguments as given (0 = library default)
    std::vector<size_t> pw; // base^i, saturating
    Capacities(size_t base_, size_t buffer_level, size_t index_level_arg) : base(base_) {
        auto log_base_ceil = [&](double x) { size_t l = 0; double p = 1; while (p < x) { p *= (double) base; ++l; } return l; };
        eff_buffer_level = buffer_level ? buffer_level : log_base_ceil(128) - (base == 2 ? 1 : 0);
        size_t dflt_index = log_base_ceil(16777216.0);
        index_level = std::max(eff_buffer_level + 1, index_level_arg ? index_level_arg : dflt_index);
        bl_arg = buffer_level; il_arg = index_level_arg;
        size_t p = 1;
        for (int i = 0; i < 70; ++i) { pw.push_back(p); p = (p > (size_t(1) << 60) / base) ? (size_t(1) << 62) : p * base; }
    }
    size_t level_cap(size_t i) const { return pw[std::min<size_t>(i, pw.size() - 1)]; }
    size_t buffer_cap() const { size_t s = 0; for (size_t j = 0; j <= eff_buffer_level; ++j) s += level_cap(j); return s; }
};

inline bool lifetime_prop(const std::string &prop) { return prop == "C19"; }

struct Op {
    std::string kind, raw;
    std::vector<long double> a;
};

inline Op parse_op(const std::string &s) {
    Op o;
    auto t = sim::split_ws(s);
    if (t.empty()) return o;
    o.kind = t[0];
    o.raw = s;
    for (size_t i = 1; i < t.size(); ++i) o.a.push_back(sim::text_to_ld(t[i]));
    return o;
}

template<typename K, typename V, size_t PE>
struct DynClass {
    using PGMType = pgm::PGMIndex<K, PE>;
    using Dyn = pgm::DynamicPGMIndex<K, V, PGMType>;
    using VM = ValueMap<V>;
    using Model = std::map<K, V>;

    // ---- generation ---------------------------------------------------------------------------------------------------
    static PlanText gen(const CfgEntry &ce, const GenCtx &g, Stats &st) {
        PlanText p;
        Rng cfg = sim::stream(g.run_seed, "cfg"), work = sim::stream(g.run_seed, "work"), env = sim::stream(g.run_seed, "env"), fault = sim::stream(g.run_seed, "fault");
        p.set("engine", "histsim");
        p.set("prop", g.prop);
        p.set("cfg", ce.name);
        // run-time configuration
        static const unsigned bases[] = {2, 2, 4, 4, 8, 8, 16, 32, 64, 128};
        unsigned base = bases[cfg.below(10)];
        unsigned bl = (unsigned) cfg.below(4);
        while (bl > 0 && std::pow((double) base, bl + 1) > (1 << 20)) --bl; // keep the eager reservations small
        Capacities cap0(base, bl, 0);
        unsigned il = cfg.chance(850) ? (unsigned) cfg.range(1, cap0.eff_buffer_level + 3) : 0; // low: small levels own a PGM-index
        p.set("base", base);
        p.set("buffer_level", bl);
        p.set("index_level", il);
        bool boundary = g.profile == "boundary";
        bool large = !boundary && (g.tsan || cfg.chance(g.prop == "C15" || g.prop == "C05" || g.prop == "C06" ? 12 : 6));
        draw_env(p, env, large, g.tsan);

        // key domain: small, so that overwrite, re-insert after erase and tombstone shadowing actually happen
        gen::KeyMap<K> km;
        size_t dom = boundary ? (size_t) cfg.range(1, 6) : (cfg.coin() ? (size_t) cfg.range(8, 64) : (size_t) cfg.range(8, 4000));
        std::vector<K> domain;
        {
            uint64_t cur = cfg.coin() ? 0 : work.range(0, km.U / 2);
            unsigned gb = (unsigned) cfg.below(km.U > (1ull << 40) ? 40 : 10) + 1;
            for (size_t i = 0; i < dom; ++i) {
                domain.push_back(km.at(cur));
                uint64_t gap = 1 + work.magnitude(gb);
                cur = (km.U - cur < gap) ? km.U : cur + gap;
            }
            domain.push_back(km.at(km.U)); // max-1
            domain.push_back(std::numeric_limits<K>::min());
            std::sort(domain.begin(), domain.end());
            domain.erase(std::unique(domain.begin(), domain.end()), domain.end());
        }
        auto dk = [&]() { return domain[work.below(domain.size())]; };
        uint64_t next_value = 1;

        // scale slot ("deep"): base 2 with the smallest buffer and more than 2^18 resident entries, i.e. more than 16 non-empty
        // levels at a time; executed by one bulk operation without per-update oracles, judged afterwards
#if !defined(__SANITIZE_ADDRESS__) && !defined(__SANITIZE_THREAD__)
        // scale slot ("huge"): a level of capacity 2^24, the first size no single-precision value counts exactly. The level is
        // bulk-loaded so that the first overflow cascade reaching it needs its free slots + delta (delta around 0), as
        // computed by the sizes-only reference model of the cascade rule; executed by one operation, judged on every insert
        // by the level sizes and at the end by the full shape check.
        if (scale_slot(g) && (g.run_index & 15) < 4 && g.prop == "C15" && sizeof(K) >= 4 && std::is_trivially_copyable_v<V> && std::is_integral_v<K>) {
            static const unsigned hb[3][2] = {{64, 0}, {16, 1}, {64, 1}}; // (base, buffer_level): level 4 / 6 / 4 has capacity 2^24
            const unsigned *h = hb[cfg.below(3)];
            Capacities hc(h[0], h[1], 0);
            size_t L = 0; while (hc.level_cap(L) < (size_t(1) << 24)) ++L;
            // reference model: sizes of the levels below L while distinct keys are inserted, until a cascade passes them all
            std::vector<size_t> sz(L, 0);
            size_t inserts = 0, need = 0;
            for (;; ++inserts) {
                if (sz[hc.eff_buffer_level] < hc.buffer_cap()) { ++sz[hc.eff_buffer_level]; continue; }
                size_t req = hc.buffer_cap() + 1, i = hc.eff_buffer_level + 1;
                for (; i < L; ++i) { if (req <= hc.level_cap(i) - sz[i]) break; req += sz[i]; }
                if (i == L) { need = req; break; }
                for (size_t j = hc.eff_buffer_level; j < i; ++j) sz[j] = 0;
                sz[i] += req;
            }
            long delta = (long) (g.run_index & 3) - 2; // -2..+1, one slot each: the cascade exceeds the free slots by two or one, fits exactly, fits with room
            size_t n0 = (size_t(1) << 24) - need - (size_t) (delta + 2) + 2; // free slots = need + delta
            PlanText hp;
            hp.set("engine", "histsim"); hp.set("prop", g.prop); hp.set("cfg", ce.name);
            hp.set("base", h[0]); hp.set("buffer_level", h[1]); hp.set("index_level", 0);
            hp.set("procs", 1); hp.set("maxthreads", 1); hp.set("preempt", 0);
            hp.set("scale", 1); hp.set("huge", 1);
            hp.item('O', "H " + std::to_string(L) + " " + std::to_string(n0) + " " + std::to_string(inserts + 1 + cfg.range(0, 40)) + " " + std::to_string(cfg.below(2)));
            return hp;
        }
#endif
        bool deep = scale_slot(g) && !large && sizeof(K) >= 4 && g.prop != "C19" && g.prop != "C20";
        if (deep) {
            p.set("base", 2); p.set("buffer_level", 1); p.set("index_level", cfg.chance(500) ? cfg.range(2, 8) : 0);
            p.set("scale", 1);
            // the levels fill like a binary counter: walk the resident count through 2^18 - 1 (all levels non-empty) one insert
            // at a time, judging size() (a full iteration) at every step
            std::string mode = std::to_string(cfg.below(2));
            p.item('O', "G " + std::to_string(262143 - 3 - cfg.range(20, 40)) + " " + std::to_string(work.next() >> 1) + " " + mode);
            for (int i = 0; i < 64; ++i) { p.item('O', "G 1 " + std::to_string(work.next() >> 1) + " " + mode); p.item('O', "S"); }
            p.item('O', "T");
            for (int i = 0; i < 6; ++i) p.item('O', "L " + key_text(km.at(work.range(0, std::min<uint64_t>(km.U, uint64_t(1) << 40)))) + " 5");
            return p;
        }
        // bulk-load: empty, tiny, with repeated keys, medium (a level far larger than the buffer), or large (E1)
        size_t nb = 0;
        bool medium = !large && !boundary && cfg.chance(60);
        if (large) nb = (size_t) cfg.range(33000, g.tsan ? 45000 : 70000);
        else if (medium) nb = (size_t) cfg.range(2000, 30000);
        else switch (cfg.below(5)) { case 0: nb = 0; break; case 1: nb = (size_t) cfg.range(1, 4); break; case 2: nb = (size_t) cfg.range(1, domain.size()); break; default: nb = (size_t) cfg.range(0, 300); }
        if (boundary) nb = (size_t) cfg.below(4);
        if (nb > 0) {
            std::vector<K> bk;
            if (medium) { // every domain key plus random others: later operations on domain keys update keys of the big level
                bk = domain;
                while (bk.size() < nb) bk.push_back(km.at(work.range(0, km.U)));
                std::sort(bk.begin(), bk.end());
            } else if (large) { // a large sorted key set of its own, the domain keys are mixed in
                std::string sig;
                gen::KeyGenParams kp; kp.n = nb; kp.U = km.U; kp.eps = PE; kp.chunks = chunks_for(env_from_plan(p), nb);
                auto pos = gen::gen_positions(kp, cfg, work, sig);
                for (auto u : pos) bk.push_back(km.at(u));
                for (K k : domain) if (work.chance(300)) bk.push_back(k);
                std::sort(bk.begin(), bk.end());
                p.set("motifs", sig);
            } else {
                for (size_t i = 0; i < nb; ++i) bk.push_back(dk());
                std::sort(bk.begin(), bk.end());
            }
            for (K k : bk) p.item('P', key_text(k) + " " + std::to_string(next_value++));
        }

        // operations
        size_t nops = boundary ? (size_t) cfg.range(0, 12) : (g.tier == "thorough" ? (cfg.chance(100) ? (size_t) cfg.range(400, 5000) : (size_t) cfg.range(1, 600)) : (size_t) cfg.range(1, 400));
        if (large) nops = std::min<size_t>(nops, 150);
        // growth mode: with the default buffer (585 entries for base 8) short histories never leave the buffer; a long
        // insert-heavy history over many distinct keys makes new levels appear after construction
        bool growth = !boundary && !large && !lifetime_prop(g.prop) && cfg.chance(60);
        if (growth) { nops = (size_t) cfg.range(650, 1800); p.set("growth", 1); }
        unsigned w_ins = (unsigned) cfg.range(2, 10), w_erase = (unsigned) cfg.range(0, 6), w_query = (unsigned) cfg.range(1, 6);
        bool lifetime = g.prop == "C19";
        bool inject = g.prop == "C20" || cfg.chance(300);
        Rng use = sim::stream(g.run_seed, "usage"); // usage-pattern dimensions (own stream: older plans keep their shape)
        bool second = !lifetime && !large && use.chance(120);
        if (second) p.set("second", 1 + use.below(6));
        if (nb > 0 && !large) { static const char *bi[] = {"vector", "vector", "pairptr", "podptr", "deque"}; const char *k = bi[use.below(5)]; if (std::string(k) != "vector") p.set("bulk_iter", k); }
        bool derived = false;
        for (size_t i = 0; i < nops; ++i) {
            if (growth && work.chance(800)) { p.item('O', "I " + key_text(km.at(work.range(0, km.U))) + " " + std::to_string(next_value++)); continue; }
            unsigned r = (unsigned) work.below(w_ins + w_erase + w_query);
            if (inject && fault.chance(g.prop == "C20" ? 150 : 30)) {
                if (VM::has_reserved && fault.coin()) p.item('O', "X " + key_text(dk()));           // reserved mapped value
                else { K a = dk(), b = dk(); if (a == b) continue; p.item('O', "Y " + key_text(std::max(a, b)) + " " + key_text(std::min(a, b))); } // lo > hi
                continue;
            }
            if (lifetime && !derived && work.chance(60) && i > 0) {
                static const char *d[] = {"copy-construct", "move-construct"};
                p.item('O', std::string("D ") + d[work.below(2)]);
                derived = true;
                continue;
            }
            if (lifetime && derived && work.chance(100)) { p.item('O', work.coin() ? "Z destroy-source" : (work.coin() ? "Z churn" : "Z query-copy")); continue; }
            if (second && use.chance(150)) { if (use.chance(700)) p.item('O', "M " + key_text(dk()) + " " + std::to_string(next_value++)); else p.item('O', "N " + key_text(dk())); continue; }
            if (use.chance(25)) { p.item('O', "A " + key_text(dk()) + " " + key_text(dk())); continue; }
            if (!lifetime && use.chance(30)) { p.item('O', "V"); continue; }
            if (use.chance(25)) { p.item('O', "U " + key_text(dk()) + " " + std::to_string(1 + use.below(5)) + " " + std::to_string(use.below(8))); continue; }
            if (r < w_ins) p.item('O', "I " + key_text(dk()) + " " + std::to_string(next_value++) + (use.coin() ? " 1" : ""));
            else if (r < w_ins + w_erase) p.item('O', "E " + key_text(dk()));
            else switch (work.below(7)) {
                case 0: p.item('O', "F " + key_text(dk())); break;
                case 1: p.item('O', "C " + key_text(dk())); break;
                case 2: p.item('O', "L " + key_text(work.chance(800) ? dk() : km.at(work.range(0, km.U))) + " " + std::to_string(work.below(12))); break;
                case 3: p.item('O', "T"); break;
                case 4: { K a = dk(), b = dk(); p.item('O', "R " + key_text(std::min(a, b)) + " " + key_text(std::max(a, b))); break; }
                case 5: p.item('O', "S"); break;
                default: p.item('O', "W"); break;
            }
        }
        if (lifetime) {
            if (!derived) p.item('O', std::string("D ") + (work.coin() ? "copy-construct" : "move-construct"));
            p.item('O', work.coin() ? "Z destroy-source" : "Z churn");
            p.item('O', "Z churn");
            p.item('O', "Z query-copy");
        }
        p.item('O', "W");
        p.item('O', "T");
        (void) st;
        return p;
    }

    // ---- oracles --------------------------------------------------------------------------------------------------------
    static bool values_equal(const V &a, const V &b) { return a == b; }

    static void check_find(const Dyn &d, const Model &m, K k, Outcome &out, Trace &tr) {
        auto it = d.find(k);
        auto mi = m.find(k);
        bool found = it != d.end();
        tr.add(found ? VM::digest(it->second) + 1 : 0);
        if (found != (mi != m.end())) { out.fail("find-presence", "find(" + key_text(k) + ") " + (found ? "returned an element" : "returned end()") + ", the map " + (mi != m.end() ? "holds the key" : "does not hold the key"), "KEY " + key_text(k)); return; }
        if (found && (it->first != k || !values_equal(it->second, mi->second))) out.fail("find-value", "find(" + key_text(k) + ") returned key " + key_text(it->first) + " with a value other than the most recently assigned one", "KEY " + key_text(k));
    }

    static void check_lower_bound_first(const Dyn &d, const Model &m, K k, Outcome &out, Trace &tr) {
        auto it = d.lower_bound(k);
        auto mi = m.lower_bound(k);
        bool at_end = it == d.end();
        tr.add(at_end ? 0 : VM::digest(it->second) + 1);
        if (at_end != (mi == m.end())) { out.fail("lower-bound-presence", "lower_bound(" + key_text(k) + ") " + (at_end ? "returned end()" : "returned key " + key_text(it->first)) + ", the map " + (mi == m.end() ? "has no key >= it" : "has " + key_text(mi->first)), "KEY " + key_text(k)); return; }
        if (!at_end && (it->first != mi->first || !values_equal(it->second, mi->second)))
            out.fail("lower-bound-element", "lower_bound(" + key_text(k) + ") designates key " + key_text(it->first) + ", the smallest live key >= it is " + key_text(mi->first) + " (or the value is stale)", "KEY " + key_text(k));
    }

    /// traversal from an iterator compared with the map's suffix; `steps` increments at most (SIZE_MAX = to the end)
    template<typename It>
    static void check_traversal(const Dyn &d, const Model &m, It it, typename Model::const_iterator mi, size_t steps, const std::string &what, Outcome &out, Trace &tr) {
        size_t budget = m.size() + 2; // a traversal that never terminates is a violation, not a hang
        auto end = d.end();
        size_t done = 0;
        while (true) {
            bool at_end = it == end;
            if (at_end != (mi == m.end())) { out.fail("traversal-length", what + ": iteration " + (at_end ? "reached end() early" : "continues past the last live key") + " after " + std::to_string(done) + " elements (map size " + std::to_string(m.size()) + ")"); return; }
            if (at_end) return;
            tr.add(VM::digest(it->second));
            if (it->first != mi->first || !values_equal(it->second, mi->second)) { out.fail("traversal-element", what + ": element " + std::to_string(done) + " is key " + key_text(it->first) + ", expected key " + key_text(mi->first) + " with its current value"); return; }
            if (done >= steps) return;
            if (budget-- == 0) { out.fail("traversal-length", what + ": iteration exceeded the number of live keys"); return; }
            ++it; ++mi; ++done;
        }
    }

    static void check_range(const Dyn &d, const Model &m, K lo, K hi, Outcome &out, Trace &tr) {
        auto res = d.range(lo, hi);
        auto mi = m.lower_bound(lo);
        size_t i = 0;
        for (; i < res.size(); ++i, ++mi) {
            if (mi == m.end() || mi->first > hi) { out.fail("range-too-long", "range(" + key_text(lo) + "," + key_text(hi) + ") returned " + std::to_string(res.size()) + " pairs, more than the live pairs in the interval"); return; }
            tr.add(VM::digest(res[i].second));
            if (res[i].first != mi->first || !values_equal(res[i].second, mi->second)) { out.fail("range-element", "range(" + key_text(lo) + "," + key_text(hi) + ") element " + std::to_string(i) + " is key " + key_text(res[i].first) + ", expected " + key_text(mi->first)); return; }
        }
        if (mi != m.end() && mi->first <= hi) out.fail("range-too-short", "range(" + key_text(lo) + "," + key_text(hi) + ") returned " + std::to_string(res.size()) + " pairs, live key " + key_text(mi->first) + " is missing");
    }

    /// C15: the LSM invariants, from the private layout (hook H3) and an independent capacity computation.
    static void check_shape(const Dyn &d, const Capacities &cap_in, const sim::Env &env, Outcome &out, Stats &st, Trace &tr) {
        const auto &levels = Access::levels(d);
        const auto &pgms = Access::pgms(d);
        size_t minl = Access::min_level(d), used = Access::used_levels(d), mil = Access::min_index_level(d);
        // What the caller asked for binds; what it left to the library's defaults does not (C15 speaks of "buffer_level" and
        // "the index level", not of the default heuristics): an explicit buffer_level must be honoured exactly, an explicit
        // index_level means that indexes start no higher than requested (more indexes than asked for are harmless).
        Capacities cap = cap_in;
        if (cap.bl_arg == 0) cap.eff_buffer_level = minl;
        else if (minl != cap.eff_buffer_level) { out.fail("buffer-level", "buffer level " + std::to_string(minl) + " differs from the requested " + std::to_string(cap.eff_buffer_level)); return; }
        if (cap.il_arg == 0) cap.index_level = mil;
        else if (mil > std::max(minl + 1, cap.il_arg)) { out.fail("index-level", "indexes start at level " + std::to_string(mil) + ", above the requested index level " + std::to_string(cap.il_arg)); return; }
        cap.index_level = mil;
        size_t levels_with_data = 0;
        for (size_t li = 0; li < levels.size(); ++li) {
            size_t lvl = li + minl;
            const auto &L = levels[li];
            tr.add(L.size());
            for (size_t i = 1; i < L.size(); ++i)
                if (!(L[i - 1].first < L[i].first)) { out.fail("level-not-sorted", "level " + std::to_string(lvl) + " is not strictly sorted at position " + std::to_string(i)); return; }
            size_t capacity = lvl == minl ? cap.buffer_cap() : cap.level_cap(lvl);
            if (L.size() > capacity) { out.fail("level-overfull", "level " + std::to_string(lvl) + " holds " + std::to_string(L.size()) + " entries, capacity " + std::to_string(capacity)); return; }
            if (lvl >= used && !L.empty()) { out.fail("data-beyond-used-levels", "level " + std::to_string(lvl) + " >= used_levels " + std::to_string(used) + " holds data"); return; }
            if (!L.empty()) ++levels_with_data;
            if (lvl >= mil) {
                size_t pi = lvl - mil;
                if (L.empty()) {
                    if (pi < pgms.size() && (PgmPeek<PGMType>::count(pgms[pi]) != 0 || !PgmPeek<PGMType>::segs(pgms[pi]).empty())) { out.fail("stale-index", "emptied level " + std::to_string(lvl) + " still owns an index over " + std::to_string(PgmPeek<PGMType>::count(pgms[pi])) + " keys"); return; }
                } else {
                    if (pi >= pgms.size()) { out.fail("index-missing", "non-empty level " + std::to_string(lvl) + " at or above the index level has no index slot"); return; }
                    const PGMType &have = pgms[pi];
                    if (PgmPeek<PGMType>::count(have) != L.size()) { out.fail("index-size", "index of level " + std::to_string(lvl) + " was built over " + std::to_string(PgmPeek<PGMType>::count(have)) + " keys, the level holds " + std::to_string(L.size())); return; }
                    st.inc("reach.indexed_level_checked");
                    bool chunked = chunks_for(env, L.size()) > 1;
                    if (!chunked) {
                        // bit-identical to a freshly built index over exactly the level's keys
                        std::vector<K> keys; keys.reserve(L.size());
                        for (auto &it : L) keys.push_back(it.first);
                        PGMType fresh(keys.begin(), keys.end());
                        const auto &a = PgmPeek<PGMType>::segs(have), &b = PgmPeek<PGMType>::segs(fresh);
                        bool same = a.size() == b.size() && PgmPeek<PGMType>::offs(have) == PgmPeek<PGMType>::offs(fresh) && (a.empty() || std::memcmp(a.data(), b.data(), a.size() * sizeof(a[0])) == 0);
                        if (!same) { out.fail("index-not-over-level-keys", "index of level " + std::to_string(lvl) + " differs from an index built over the level's current keys (stale or not rebuilt)"); return; }
                    } else {
                        // chunked build: property-level equivalence (every key of the level inside its search range)
                        st.inc("reach.indexed_level_chunked");
                        for (size_t i = 0; i < L.size(); i += std::max<size_t>(1, L.size() / 3000)) {
                            auto r = have.search(L[i].first);
                            if (!(r.lo <= i && i < r.hi)) { out.fail("index-not-over-level-keys", "index of level " + std::to_string(lvl) + " does not locate the level's key at position " + std::to_string(i)); return; }
                        }
                    }
                }
            }
        }
        st.max("max_levels_with_data", levels_with_data);
        if (levels_with_data >= 3) st.inc("reach.three_levels_with_data");
    }

    struct Snapshot {
        std::vector<std::vector<std::pair<K, uint64_t>>> levels;
        std::vector<std::vector<unsigned char>> pgm_bytes;
        size_t used;
        bool operator==(const Snapshot &o) const { return levels == o.levels && pgm_bytes == o.pgm_bytes && used == o.used; }
    };
    static Snapshot snapshot(const Dyn &d) {
        Snapshot s;
        for (auto &L : Access::levels(d)) {
            s.levels.emplace_back();
            for (auto &it : L) s.levels.back().emplace_back(it.first, it.deleted() ? ~0ull : VM::digest(it.second));
        }
        for (auto &pg : Access::pgms(d)) {
            const auto &sg = PgmPeek<PGMType>::segs(pg);
            const unsigned char *b = reinterpret_cast<const unsigned char *>(sg.data());
            s.pgm_bytes.emplace_back(b, b + sg.size() * sizeof(sg[0]));
        }
        s.used = Access::used_levels(d);
        return s;
    }

    /// The "huge" scale slot: bulk-load n0 entries (they land in level L), insert `count` further distinct keys, judging the
    /// level sizes after every insert, the full shape at the end and a sample of lookups. No std::map model: keys and values
    /// are given by formulas.
    static Outcome run_huge(const CfgEntry &ce, const PlanText &p, const Op &o, const Capacities &cap_in, const sim::Env &env, Stats &st) {
        Outcome out;
        Trace tr;
        const size_t L = (size_t) o.a[0], n0 = (size_t) o.a[1], count = (size_t) o.a[2];
        const bool interleave = o.a[3] != 0;
        gen::KeyMap<K> km;
        auto bulk_key = [&](size_t i) { return km.at(1000 + 2 * (uint64_t) i); };
        const size_t stride = std::max<size_t>(1, n0 / (count + 1));
        auto ins_key = [&](size_t j) { return interleave ? km.at(1000 + 2 * (uint64_t) (j * stride) + 1) : km.at(1000 + 2 * (uint64_t) (n0 + 1 + j)); };
        if (n0 == 0 || 1000 + 2 * (uint64_t) (n0 + count + 2) > km.U) { out.trace_hash = tr.h; return out; }
        std::unique_ptr<Dyn> X;
        {
            std::vector<std::pair<K, V>> bulk;
            bulk.reserve(n0);
            for (size_t i = 0; i < n0; ++i) bulk.emplace_back(bulk_key(i), VM::make(i + 1));
            sim::begin_run(env);
            try { X.reset(new Dyn(bulk.begin(), bulk.end(), (uint8_t) cap_in.base, (uint8_t) p.get_u("buffer_level", 0), (uint8_t) p.get_u("index_level", 0))); }
            catch (const std::exception &e) { sim::end_run(); out.fail("ctor-exception", std::string("bulk-load of a sorted range threw: ") + e.what()); out.trace_hash = tr.h; return out; }
        }
        const size_t minl = Access::min_level(*X);
        Capacities cap = cap_in;
        if (cap.bl_arg == 0) cap.eff_buffer_level = minl; // a default buffer size is the library's business
        auto sizes_ok = [&](size_t step) {
            const auto &levels = Access::levels(*X);
            size_t used = Access::used_levels(*X), total = 0;
            for (size_t li = 0; li < levels.size(); ++li) {
                size_t lvl = li + minl, capacity = lvl == minl ? cap.buffer_cap() : cap.level_cap(lvl);
                total += levels[li].size();
                if (levels[li].size() > capacity) { out.fail("level-overfull", "after insert #" + std::to_string(step) + ": level " + std::to_string(lvl) + " holds " + std::to_string(levels[li].size()) + " entries, capacity " + std::to_string(capacity)); return false; }
                if (lvl >= used && !levels[li].empty()) { out.fail("data-beyond-used-levels", "after insert #" + std::to_string(step) + ": level " + std::to_string(lvl) + " >= used_levels " + std::to_string(used) + " holds data"); return false; }
            }
            if (total != n0 + step) { out.fail("entries-lost", "after insert #" + std::to_string(step) + " of distinct keys the levels hold " + std::to_string(total) + " entries, expected " + std::to_string(n0 + step)); return false; }
            return true;
        };
        if (Access::levels(*X)[L - minl].size() != n0) st.inc("huge_bulk_not_in_target_level");
        size_t big_before = Access::levels(*X)[L - minl].size(), reached = 0;
        bool ok = sizes_ok(0);
        for (size_t j = 0; j < count && ok; ++j) {
            X->insert_or_assign(ins_key(j), VM::make(100000000 + j));
            ok = sizes_ok(j + 1);
            size_t big = Access::levels(*X)[L - minl].size();
            if (big != big_before) { ++reached; tr.add(j); tr.add(big); big_before = big; }
        }
        sim::end_run();
        if (reached) st.inc("reach.huge_cascade_reached_2p24_level");
        st.inc("huge_runs");
        if (out.ok) check_shape(*X, cap, env, out, st, tr);
        // lookups: a sample of bulk keys, every 997th inserted key, absent even neighbours
        for (size_t i = 0; i < n0 && out.ok; i += n0 / 1500 + 1) {
            auto it = X->find(bulk_key(i));
            if (it == X->end() || !values_equal(it->second, VM::make(i + 1))) out.fail("find-value", "find of bulk-loaded key #" + std::to_string(i) + " fails or returns another value");
        }
        for (size_t j = 0; j < count && out.ok; j += 997) {
            auto it = X->find(ins_key(j));
            if (it == X->end() || !values_equal(it->second, VM::make(100000000 + j))) out.fail("find-value", "find of inserted key #" + std::to_string(j) + " fails or returns another value");
        }
        st.mark("nontrivial", sim::mix(sim::hash_str(ce.name.c_str()), sim::mix(n0, count)));
        out.trace_hash = tr.h;
        return out;
    }

    /// Bulk-load through different iterator kinds: vector iterators over std::pair (default), raw pointers to std::pair, raw
    /// pointers to a plain struct {K first; V second;} (what the C interface passes), std::deque iterators.
    struct PodPair { K first; V second; };
    static Dyn *make_from(const std::vector<std::pair<K, V>> &bulk, const std::string &kind, unsigned base, unsigned bl, unsigned il, Stats &st) {
        if (kind == "pairptr") { st.inc("reach.bulk_from_pair_pointers"); const std::pair<K, V> *a = bulk.data(); return new Dyn(a, a + bulk.size(), (uint8_t) base, (uint8_t) bl, (uint8_t) il); }
        if (kind == "podptr") {
            st.inc("reach.bulk_from_struct_pointers");
            std::vector<PodPair> pod; pod.reserve(bulk.size());
            for (auto &kv : bulk) pod.push_back(PodPair{kv.first, kv.second});
            const PodPair *a = pod.data();
            return new Dyn(a, a + pod.size(), (uint8_t) base, (uint8_t) bl, (uint8_t) il);
        }
        if (kind == "deque") { st.inc("reach.bulk_from_deque"); std::deque<std::pair<K, V>> dq(bulk.begin(), bulk.end()); return new Dyn(dq.begin(), dq.end(), (uint8_t) base, (uint8_t) bl, (uint8_t) il); }
        return new Dyn(bulk.begin(), bulk.end(), (uint8_t) base, (uint8_t) bl, (uint8_t) il);
    }

    // ---- execution ------------------------------------------------------------------------------------------------------
    static Outcome run(const CfgEntry &ce, const PlanText &p, const RunCtx &rc, Stats &st) {
        Outcome out;
        Trace tr;
        const std::string &prop = rc.prop;
        const bool all = prop == "C17" || prop == "C19" || prop == "C20";
        const bool do_point = all || prop == "C05", do_trav = all || prop == "C06", do_shape = prop == "C15" || prop == "C20" || prop == "C17";
        sim::Env env = env_from_plan(p);
        unsigned base = (unsigned) p.get_u("base", 8), bl = (unsigned) p.get_u("buffer_level", 0), il = (unsigned) p.get_u("index_level", 0);
        Capacities cap(base, bl, il);
        Model model;
        std::vector<std::pair<K, V>> bulk;
        std::vector<Op> ops;
        std::set<K> domain_set;
        for (auto &it : p.items) {
            if (it.first == 'P') { auto t = sim::split_ws(it.second); if (t.size() >= 2) { K k = (K) sim::text_to_ld(t[0]); bulk.emplace_back(k, VM::make(std::strtoull(t[1].c_str(), nullptr, 10))); domain_set.insert(k); } }
            else if (it.first == 'O') { ops.push_back(parse_op(it.second)); const Op &o = ops.back(); if (!o.a.empty() && o.kind != "D" && o.kind != "Z") domain_set.insert((K) o.a[0]); }
        }
        if (p.get_u("huge", 0) && !ops.empty() && ops[0].kind == "H" && ops[0].a.size() >= 4) return run_huge(ce, p, ops[0], cap, env, st);
        std::vector<K> domain(domain_set.begin(), domain_set.end());
        if (domain.size() > 3000) { std::vector<K> s; for (size_t i = 0; i < domain.size(); i += domain.size() / 3000 + 1) s.push_back(domain[i]); domain.swap(s); }
        std::sort(bulk.begin(), bulk.end(), [](auto &a, auto &b) { return a.first < b.first; }); // stable w.r.t. plan edits: ddmin keeps order, sort is a no-op on sorted input
        for (auto &kv : bulk) model.emplace(kv.first, kv.second); // first of each group wins

        sim::begin_run(env);
        std::unique_ptr<Dyn> X;
        try {
            X.reset(make_from(bulk, p.get("bulk_iter"), base, bl, il, st));
        } catch (const std::exception &e) {
            sim::end_run();
            out.fail("ctor-exception", std::string("bulk-load of a sorted range threw: ") + e.what());
            out.trace_hash = tr.h;
            return out;
        }
        if (chunks_for(env, bulk.size()) > 1 && sim::g_env_stats.max_team >= 2) st.inc("sim_active_runs");
        Dyn *cur = X.get();
        std::unique_ptr<Dyn> Y; // derived object (C19)
        Model y_model;
        // a second container of the same type on the same thread (header `second`): receives updates right after the first
        // one was queried for the same key; judged like the first (state kept per thread or per type, not per object, shows up)
        std::unique_ptr<Dyn> B;
        Model b_model;
        if (p.get_u("second", 0)) {
            std::vector<std::pair<K, V>> bb(bulk.begin(), bulk.begin() + std::min<size_t>(bulk.size(), (size_t) p.get_u("second", 0) - 1));
            for (auto &kv : bb) b_model.emplace(kv.first, kv.second);
            B.reset(new Dyn(bb.begin(), bb.end(), (uint8_t) base, (uint8_t) bl, (uint8_t) il));
            st.inc("second_container_runs");
        }
        bool x_alive = true, x_moved = false;
        size_t updates = 0, reinserts = 0, merges_seen = 0;
        std::set<K> erased_once;
        size_t prev_levels_sig = 0;
        bool full_sweep = false;

        auto after_update = [&]() {
            ++updates;
            if (do_shape && out.ok) check_shape(*cur, cap, env, out, st, tr);
            if (prop == "C05" && out.ok && updates % 16 == 0) full_sweep = true;
            size_t sig = 0;
            for (auto &L : Access::levels(*cur)) sig = sig * 131 + L.size();
            if (sig != prev_levels_sig) { st.mark("occupancy", sim::mix(sig, base * 16 + bl)); prev_levels_sig = sig; }
        };
        auto sweep = [&](const Dyn &d, const Model &m) {
            for (K k : domain) { if (!out.ok) break; if (do_point) { check_find(d, m, k, out, tr); if (out.ok) check_lower_bound_first(d, m, k, out, tr); } }
        };
        if (do_shape) check_shape(*cur, cap, env, out, st, tr);

        for (size_t oi = 0; oi < ops.size() && out.ok; ++oi) {
            const Op &o = ops[oi];
            tr.add_str(o.kind);
            bool src_usable = x_alive && !x_moved;
            if (o.kind == "I" && o.a.size() >= 2) {
                if (!src_usable) continue;
                K k = (K) o.a[0]; V v = VM::make((uint64_t) o.a[1]);
                if (is_reserved(k)) continue;
                if (erased_once.count(k) && !model.count(k)) ++reinserts;
                if (o.a.size() >= 3 && o.a[2] != 0) cur->insert_or_assign(k, V(v)); // the mapped value arrives as a temporary
                else cur->insert_or_assign(k, v);
                model[k] = v;
                after_update();
                if (out.ok && do_point) check_find(*cur, model, k, out, tr);
                if (full_sweep && out.ok) { sweep(*cur, model); full_sweep = false; }
            } else if (o.kind == "G" && o.a.size() >= 3) {
                // bulk operation of the scale slot: `count` inserts of (mostly) distinct keys, model updated alongside, no per-update oracle
                if (!src_usable) continue;
                size_t count = (size_t) o.a[0];
                Rng gr((uint64_t) o.a[1]);
                bool random_keys = o.a[2] != 0;
                gen::KeyMap<K> km;
                uint64_t cur_u = 1000 + 4 * (uint64_t) updates; // ascending mode continues above everything inserted so far
                for (size_t gi = 0; gi < count; ++gi) {
                    uint64_t u = random_keys ? gr.range(0, std::min<uint64_t>(km.U, uint64_t(1) << 40)) : (cur_u = std::min<uint64_t>(km.U, cur_u + 1 + gr.below(3)));
                    K k = km.at(u);
                    V v = VM::make(1000000 + gi);
                    cur->insert_or_assign(k, v);
                    model[k] = v;
                    ++updates;
                }
                size_t nonempty = 0;
                for (auto &L : Access::levels(*cur)) if (!L.empty()) ++nonempty;
                st.max("max_levels_with_data", nonempty);
                if (nonempty > 16) st.inc("reach.more_than_16_levels");
                if (do_shape && out.ok) check_shape(*cur, cap, env, out, st, tr);
            } else if (o.kind == "E" && !o.a.empty()) {
                if (!src_usable) continue;
                K k = (K) o.a[0];
                if (is_reserved(k)) continue;
                cur->erase(k);
                if (model.erase(k)) erased_once.insert(k);
                after_update();
                if (out.ok && do_point) check_find(*cur, model, k, out, tr);
            } else if (o.kind == "F" && !o.a.empty()) {
                if (src_usable && do_point) check_find(*cur, model, (K) o.a[0], out, tr);
            } else if (o.kind == "C" && !o.a.empty()) {
                if (src_usable && do_point) { K k = (K) o.a[0]; size_t c = cur->count(k); tr.add(c); if (c != model.count(k)) out.fail("count", "count(" + key_text(k) + ") = " + std::to_string(c) + ", the map says " + std::to_string(model.count(k)), "KEY " + key_text(k)); }
            } else if (o.kind == "L" && !o.a.empty()) {
                if (!src_usable) continue;
                K k = (K) o.a[0];
                if (do_point) check_lower_bound_first(*cur, model, k, out, tr);
                if (out.ok && do_trav) check_traversal(*cur, model, cur->lower_bound(k), model.lower_bound(k), o.a.size() > 1 ? (size_t) o.a[1] : 3, "lower_bound(" + key_text(k) + ") + increments", out, tr);
            } else if (o.kind == "U" && o.a.size() >= 3) {
                // copies of an iterator that has already been advanced: both walkers must see the same, correct suffix
                if (!src_usable || !do_trav) continue;
                K k = (K) o.a[0];
                auto it = cur->lower_bound(k);
                auto mi = model.lower_bound(k);
                auto end = cur->end();
                for (size_t a = 0; a < (size_t) o.a[1] && it != end && mi != model.end(); ++a) { ++it; ++mi; }
                if ((it == end) != (mi == model.end())) { out.fail("traversal-length", "iterator advanced " + std::to_string((size_t) o.a[1]) + " times from lower_bound(" + key_text(k) + ") and the map disagree about the end"); continue; }
                auto saved = it; // copy of an advanced iterator
                check_traversal(*cur, model, it, mi, (size_t) o.a[2], "copy of an advanced iterator (first walker)", out, tr); // passes another copy
                if (out.ok) check_traversal(*cur, model, saved, mi, (size_t) o.a[2] + 2, "copy of an advanced iterator (second walker, after the first one moved on)", out, tr);
                if (out.ok) check_traversal(*cur, model, it, mi, 1, "the original iterator after its copies were advanced", out, tr);
                st.inc("steps.iterator_copies");
            } else if (o.kind == "V") {
                // snapshot: a copy taken at this moment is a container in its own right (same oracles), then dropped
                if (!src_usable) continue;
                if constexpr (std::is_copy_constructible_v<Dyn>) {
                    Dyn snap(*cur);
                    st.inc("steps.snapshot_copy");
                    Outcome o2;
                    if (do_shape) check_shape(snap, cap, env, o2, st, tr);
                    if (o2.ok && (do_point || do_trav)) for (K k : domain) { check_find(snap, model, k, o2, tr); if (!o2.ok) break; }
                    if (o2.ok && do_trav) check_traversal(snap, model, snap.begin(), model.begin(), SIZE_MAX, "begin()..end()", o2, tr);
                    if (!o2.ok) out.fail(o2.clause, "snapshot copy of the container: " + o2.detail);
                }
            } else if (o.kind == "A" && o.a.size() >= 2) {
                // the value argument refers to an element of the container itself
                if (!src_usable) continue;
                K src = (K) o.a[0], dst = (K) o.a[1];
                if (is_reserved(dst)) continue;
                auto f = cur->find(src);
                if (f == cur->end()) continue;
                cur->insert_or_assign(dst, f->second);
                model[dst] = model.at(src);
                after_update();
                st.inc("steps.aliased_value");
                if (out.ok && (do_point || do_trav)) { check_find(*cur, model, dst, out, tr); if (out.ok) check_find(*cur, model, src, out, tr); }
            } else if ((o.kind == "M" || o.kind == "N") && !o.a.empty()) {
                if (!B || !src_usable) continue;
                K k = (K) o.a[0];
                if (is_reserved(k)) continue;
                (void) (cur->find(k) == cur->end()); // the first container is asked about the key ...
                if (o.kind == "M" && o.a.size() >= 2) { V v = VM::make((uint64_t) o.a[1]); B->insert_or_assign(k, v); b_model[k] = v; } // ... and the second one updated with it
                else { B->erase(k); b_model.erase(k); }
                st.inc("steps.second_container_update");
                if (do_shape && out.ok) { Outcome o2; check_shape(*B, cap, env, o2, st, tr); if (!o2.ok) out.fail(o2.clause, "second container: " + o2.detail); }
                if (out.ok) { Outcome o2; check_find(*B, b_model, k, o2, tr); if (!o2.ok) out.fail(o2.clause, "second container: " + o2.detail); }
            } else if (o.kind == "T") {
                if (src_usable && B && do_trav) { Outcome o2; check_traversal(*B, b_model, B->begin(), b_model.begin(), SIZE_MAX, "second container: begin()..end()", o2, tr); if (!o2.ok) out.fail(o2.clause, o2.detail); }
                if (src_usable && do_trav) check_traversal(*cur, model, cur->begin(), model.begin(), SIZE_MAX, "begin()..end()", out, tr);
            } else if (o.kind == "R" && o.a.size() >= 2) {
                if (src_usable && do_trav) check_range(*cur, model, (K) o.a[0], (K) o.a[1], out, tr);
            } else if (o.kind == "S") {
                if (src_usable && do_trav) {
                    size_t s = cur->size(); bool e = cur->empty();
                    tr.add(s);
                    if (s != model.size()) out.fail("size", "size() = " + std::to_string(s) + ", live keys " + std::to_string(model.size()));
                    else if (e != model.empty()) out.fail("empty", std::string("empty() = ") + (e ? "true" : "false") + " with " + std::to_string(model.size()) + " live keys");
                }
            } else if (o.kind == "W") {
                if (src_usable) { sweep(*cur, model); if (out.ok && do_shape) check_shape(*cur, cap, env, out, st, tr); }
            } else if (o.kind == "X" && !o.a.empty()) {
                // injected fault: the reserved mapped value. Must throw std::invalid_argument and leave the container as it was.
                if (!src_usable) continue;
                if constexpr (VM::has_reserved) {
                    K k = (K) o.a[0];
                    Snapshot before = snapshot(*cur);
                    st.inc("fault.invalid_op");
                    std::string got = "no exception";
                    try { cur->insert_or_assign(k, VM::reserved()); }
                    catch (const std::invalid_argument &) { got = "invalid_argument"; }
                    catch (const std::exception &e) { got = std::string("other exception: ") + e.what(); }
                    tr.add_str(got);
                    if (got != "invalid_argument") out.fail("reserved-value-not-rejected", "insert_or_assign(" + key_text(k) + ", reserved tombstone value): " + got);
                    else if (!(snapshot(*cur) == before)) out.fail("rejected-insert-changed-state", "a rejected insert_or_assign(" + key_text(k) + ", reserved value) changed the container");
                    else if (do_point) check_find(*cur, model, k, out, tr);
                }
            } else if (o.kind == "Y" && o.a.size() >= 2) {
                if (!src_usable) continue;
                K lo = (K) o.a[0], hi = (K) o.a[1];
                if (!(lo > hi)) continue;
                st.inc("fault.invalid_op");
                std::string got = "no exception";
                try { auto r = cur->range(lo, hi); (void) r; }
                catch (const std::invalid_argument &) { got = "invalid_argument"; }
                catch (const std::exception &e) { got = std::string("other exception: ") + e.what(); }
                tr.add_str(got);
                if (got != "invalid_argument") out.fail("inverted-range-not-rejected", "range(" + key_text(lo) + "," + key_text(hi) + ") with lo > hi: " + got);
            } else if (o.kind == "D") {
                // derive Y from X (C19)
                if (Y || !src_usable) continue;
                const std::string &text = o.raw; // the derivation kind is the op's text after "D "
                if (text.find("move") != std::string::npos) { Y.reset(new Dyn(std::move(*cur))); x_moved = true; st.inc("steps.move-construct"); }
                else { Y.reset(new Dyn(*cur)); st.inc("steps.copy-construct"); }
                y_model = model;
                sim::set_poison(true);
            } else if (o.kind == "Z") {
                const std::string &text = o.raw;
                if (text.find("destroy-source") != std::string::npos) { if (x_alive && Y) { X.reset(); cur = nullptr; x_alive = false; st.inc("fault.destroy_source"); } }
                else if (text.find("churn") != std::string::npos) { Rng r(oi * 977 + 13); churn_allocator(r, 1 << 16); }
                else if (text.find("query-copy") != std::string::npos && Y) {
                    Outcome o2; Trace t2;
                    for (K k : domain) { check_find(*Y, y_model, k, o2, t2); if (!o2.ok) break; check_lower_bound_first(*Y, y_model, k, o2, t2); if (!o2.ok) break; }
                    if (o2.ok) check_traversal(*Y, y_model, Y->begin(), y_model.begin(), SIZE_MAX, "copy begin()..end()", o2, t2);
                    tr.add(t2.h);
                    st.inc("steps.query-copy");
                    if (!o2.ok) out.fail("copy-answers-differ", "the derived container no longer answers like the source did when it was derived: " + o2.detail);
                }
            }
        }
        sim::set_poison(false);
        st.inc("fault.poison_runs", sim::g_poisoned_blocks); sim::g_poisoned_blocks = 0;
        note_env_stats(st);
        sim::end_run();
        tr.add(sim_stat_decision_hash());
        st.inc("updates", updates);
        if (reinserts) st.inc("reach.erase_then_reinsert");
        size_t levels_nonempty = 0;
        if (cur) for (auto &L : Access::levels(*cur)) if (!L.empty()) ++levels_nonempty;
        if (levels_nonempty >= 2) st.inc("reach.multi_level_state");
        if (updates >= 2 && (levels_nonempty >= 2 || reinserts)) st.mark("nontrivial", tr.h);
        if (st.samples.size() < 3 && st.counters["runs"] % 40 == 5) {
            std::string s = ce.name + " base=" + std::to_string(base) + " buffer_level=" + std::to_string(bl) + " index_level=" + std::to_string(il) + " bulk=" + std::to_string(bulk.size()) + " ops=[";
            size_t shown = 0;
            for (auto &it : p.items) if (it.first == 'O' && shown++ < 10) s += it.second + "; ";
            s += "...] (" + std::to_string(ops.size()) + " ops)";
            st.samples.push_back(s);
        }
        out.trace_hash = tr.h;
        return out;
    }
};

#define EB_CAT2(a, b) a##b
#define EB_CAT(a, b) EB_CAT2(a, b)
#define EB_REGISTER_DYN(K, V, PE)                                                                                          \
    static ::ea::Registrar EB_CAT(reg_dyn_, __COUNTER__)(::ea::CfgEntry{std::string("dyn:") + ::ea::key_name<K>() + ":" + ::eb::ValueMap<V>::name() + ":e" #PE, "dyn", PE, 4, false, \
        &::eb::DynClass<K, V, PE>::gen, &::eb::DynClass<K, V, PE>::run});

}
