// Engine C (filesim) main.
#include "c_mapped.hpp"
#include "../sim/main.hpp"

namespace ec {

static bool cls_serves(const std::string &cls, const std::string &prop) {
    return cls == "mapped" && (prop == "C11" || prop == "C12" || prop == "C17" || prop == "C07");
}

struct EngineC {
    static constexpr const char *name = "filesim";
    sim::Options opt;
    std::vector<const ea::CfgEntry *> menu;
    bool tsan = false;

    void configure(const sim::Options &o) {
        opt = o;
#if defined(__SANITIZE_THREAD__)
        tsan = true;
#endif
        menu.clear();
        std::vector<const ea::CfgEntry *> all;
        for (auto &e : ea::registry()) all.push_back(&e);
        std::sort(all.begin(), all.end(), [](auto a, auto b) { return a->name < b->name; });
        for (auto e : all) if (cls_serves(e->cls, o.prop)) menu.push_back(e);
    }

    PlanText generate(uint64_t run_seed, uint64_t run_index, Stats &st) {
        if (menu.empty()) { std::fprintf(stderr, "filesim: no configuration serves %s\n", opt.prop.c_str()); std::exit(2); }
        Rng pick = sim::stream(run_seed, "menu");
        const ea::CfgEntry *e = menu[pick.below(menu.size())];
        ea::GenCtx g{run_seed, run_index, opt.prop, opt.tier, opt.profile, tsan};
        PlanText p = e->gen(*e, g, st);
        p.set("seed", run_seed);
        return p;
    }

    Outcome execute(const PlanText &p, Stats &st) {
        const ea::CfgEntry *e = ea::find_cfg(p.get("cfg"));
        if (!e) { Outcome o; o.fail("bad-plan", "unknown cfg " + p.get("cfg")); return o; }
        ea::RunCtx rc{p.get("prop", opt.prop), p.get("profile", opt.profile)};
        st.inc("cfg." + e->cls);
        st.mark("configs", sim::hash_str(e->name.c_str()));
        Outcome out = e->run(*e, p, rc, st);
        if (rc.prop == "C17" && !out.ok) {
            // C17's oracle is the memory-error detector (a report ends the process); functional clauses belong to other properties
            st.inc("c17_functional_failures_not_judged");
            Outcome ok; ok.trace_hash = out.trace_hash; ok.preds = out.preds;
            return ok;
        }
        return out;
    }
};

}

int main(int argc, char **argv) {
    if (argc > 1 && std::string(argv[1]) == "--list") {
        for (auto &e : ea::registry()) std::printf("%s\n", e.name.c_str());
        return 0;
    }
    return sim::sim_main<ec::EngineC>(argc, argv);
}
