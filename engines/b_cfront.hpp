// Engine B, class "cdyn": the extern "C" functions of c-interface/cpgm.h over dynamic_pgm_index_<type> (C18), driven by
// the same kind of histories and judged against std::map; plus the enumeration modes of C20 for DynamicPGMIndex.
#pragma once
#include "b_dynamic.hpp"
#include "cpgm.h"

namespace eb {

#define EB_CFRONT(T, CT)                                                                                                  \
    struct CDyn_##T {                                                                                                     \
        using K = CT;                                                                                                     \
        using pair_t = pair_##T##_t;                                                                                      \
        using handle = dynamic_pgm_index_##T##_t *;                                                                       \
        static handle create(const pair_t *a, size_t n) { return dynamic_pgm_index_##T##_create(a, n); }                  \
        static handle create_empty() { return dynamic_pgm_index_##T##_create_empty(); }                                   \
        static void destroy(handle h) { dynamic_pgm_index_##T##_destroy(h); }                                             \
        static size_t size(handle h) { return dynamic_pgm_index_##T##_size(h); }                                          \
        static void insert(handle h, K k, K v) { dynamic_pgm_index_##T##_insert_or_assign(h, k, v); }                     \
        static void erase(handle h, K k) { dynamic_pgm_index_##T##_erase(h, k); }                                         \
        static bool find(handle h, K k, K *v) { return dynamic_pgm_index_##T##_find(h, k, v); }                           \
        static void *begin(handle h) { return dynamic_pgm_index_##T##_begin(h); }                                         \
        static void *lower_bound(handle h, K q) { return dynamic_pgm_index_##T##_lower_bound(h, q); }                     \
        static bool next(handle h, void *it, K *k, K *v) { return dynamic_pgm_index_##T##_iterator_next(h, it, k, v); }   \
        static void it_destroy(void *it) { dynamic_pgm_index_##T##_iterator_destroy(it); }                                \
        static const char *name() { return #T; }                                                                          \
    };

EB_CFRONT(int32, int32_t)
EB_CFRONT(int64, int64_t)
EB_CFRONT(uint32, uint32_t)

template<typename C>
struct CDynClass {
    using K = typename C::K;
    using Model = std::map<K, K>;

    static PlanText gen(const CfgEntry &ce, const GenCtx &g, Stats &st) {
        PlanText p;
        Rng cfg = sim::stream(g.run_seed, "cfg"), work = sim::stream(g.run_seed, "work"), env = sim::stream(g.run_seed, "env");
        p.set("engine", "histsim");
        p.set("prop", g.prop);
        p.set("cfg", ce.name);
        bool boundary = g.profile == "boundary";
        bool large = !boundary && (g.tsan || cfg.chance(4));
        draw_env(p, env, large, g.tsan);
        gen::KeyMap<K> km;
        if (g.prop == "C20") { // create(pairs, n) must return NULL for an unsorted array, at every position (small) / sampled (large)
            p.set("mode", "c-unsorted");
            { Rng m = sim::stream(g.run_seed, "cmode"); if (m.chance(300)) p.set("c_reserved", 1); } // the reserved mapped value instead of an unsorted pair
            size_t n = cfg.chance(800) ? (size_t) cfg.range(2, 64) : (size_t) cfg.range(65, 3000);
            uint64_t c = work.range(0, km.U / 2);
            for (size_t i = 0; i < n; ++i) { p.item('P', key_text(km.at(c)) + " " + std::to_string(i + 1)); if (!work.chance(150)) { uint64_t gap = 1 + work.magnitude(12); c = (km.U - c < gap) ? km.U : c + gap; } }
            p.set("positions", n <= 64 ? "all" : "sample");
            p.set("qseed", work.next() >> 1);
            return p;
        }
        size_t dom = boundary ? (size_t) cfg.range(1, 6) : (cfg.coin() ? (size_t) cfg.range(8, 64) : (size_t) cfg.range(8, 3000));
        std::vector<K> domain;
        uint64_t cur = cfg.coin() ? 0 : work.range(0, km.U / 2);
        unsigned gb = (unsigned) cfg.below(km.U > (1ull << 40) ? 40 : 10) + 1;
        for (size_t i = 0; i < dom; ++i) {
            domain.push_back(km.at(cur));
            uint64_t gap = 1 + work.magnitude(gb);
            cur = (km.U - cur < gap) ? km.U : cur + gap;
        }
        domain.push_back(km.at(km.U));
        domain.push_back(std::numeric_limits<K>::min());
        std::sort(domain.begin(), domain.end());
        domain.erase(std::unique(domain.begin(), domain.end()), domain.end());
        auto dk = [&]() { return domain[work.below(domain.size())]; };
        uint64_t next_value = 1;
        // create_empty, or create(pairs, n)
        size_t nb = 0;
        if (large) nb = (size_t) cfg.range(33000, 50000);
        else switch (cfg.below(4)) { case 0: nb = 0; p.set("create", "empty"); break; case 1: nb = (size_t) cfg.range(1, 4); break; default: nb = (size_t) cfg.range(0, 1500); }
        if (boundary) nb = (size_t) cfg.below(3);
        std::vector<K> bk;
        for (size_t i = 0; i < nb; ++i) bk.push_back(large ? km.at(work.range(0, km.U)) : dk());
        std::sort(bk.begin(), bk.end());
        for (K k : bk) p.item('P', key_text(k) + " " + std::to_string(next_value++));
        size_t nops = boundary ? (size_t) cfg.range(0, 12) : (g.tier == "thorough" && cfg.chance(100) ? (size_t) cfg.range(400, 5000) : (size_t) cfg.range(1, 500));
        // growth mode: the wrapper has no configuration parameters (base 8, buffer of 585 entries), so only a long,
        // insert-heavy history over many distinct keys makes the container start using new levels after its creation
        bool growth = !boundary && !large && cfg.chance(120);
        if (growth) { nops = (size_t) cfg.range(650, 1600); p.set("growth", 1); }
        for (size_t i = 0; i < nops; ++i) {
            if (growth && work.chance(850)) { p.item('O', "I " + key_text(km.at(work.range(0, km.U))) + " " + std::to_string(next_value++)); continue; }
            if (!growth && work.chance(12)) { p.item('O', "N"); continue; } // the handle is destroyed and a new, empty container takes its place
            switch (work.below(12)) {
                case 0: case 1: case 2: case 3: case 4: p.item('O', "I " + key_text(dk()) + " " + std::to_string(next_value++)); break;
                case 5: case 6: p.item('O', "E " + key_text(dk())); break;
                case 7: p.item('O', "F " + key_text(dk())); break;
                case 8: p.item('O', "L " + key_text(work.chance(800) ? dk() : km.at(work.range(0, km.U))) + " " + std::to_string(work.below(12))); break;
                case 9: p.item('O', work.coin() ? "T" : "S"); break;
                case 10: p.item('O', "H " + key_text(dk()) + " " + std::to_string(work.below(4))); break; // hold an iterator, destroy it later
                default: p.item('O', "K " + std::to_string(work.below(8))); break;                          // destroy a held iterator
            }
        }
        p.item('O', "T");
        { Rng by = sim::stream(g.run_seed, "bystander"); if (by.chance(300)) p.set("bystander", by.range(1, 700)); } // a second container alive all along
        (void) st;
        return p;
    }

    static Outcome run(const CfgEntry &ce, const PlanText &p, const RunCtx &rc, Stats &st) {
        Outcome out;
        Trace tr;
        sim::Env env = env_from_plan(p);
        Model model;
        std::vector<typename C::pair_t> bulk;
        std::vector<Op> ops;
        for (auto &it : p.items) {
            if (it.first == 'P') { auto t = sim::split_ws(it.second); if (t.size() >= 2) { typename C::pair_t pr; pr.first = (K) sim::text_to_ld(t[0]); pr.second = (K) std::strtoull(t[1].c_str(), nullptr, 10); bulk.push_back(pr); } }
            else if (it.first == 'O') ops.push_back(parse_op(it.second));
        }
        std::stable_sort(bulk.begin(), bulk.end(), [](auto &a, auto &b) { return a.first < b.first; });
        for (auto &kv : bulk) model.emplace(kv.first, kv.second);
        if (p.get("mode") == "c-unsorted") {
            size_t n = bulk.size();
            if (n < 2) { out.trace_hash = tr.h; return out; }
            Rng r(p.get_u("qseed", 1));
            std::vector<size_t> positions;
            if (p.get("positions", "all") == "all") for (size_t i = 1; i < n; ++i) positions.push_back(i);
            else for (int t = 0; t < 40; ++t) positions.push_back((size_t) r.range(1, n - 1));
            const bool c_reserved = p.get_u("c_reserved", 0) != 0;
            if (c_reserved) { // strictly increasing keys so that the reserved value is the only defect of the array
                std::vector<typename C::pair_t> dist;
                for (auto &kv : bulk) if (dist.empty() || dist.back().first < kv.first) dist.push_back(kv);
                bulk.swap(dist); n = bulk.size();
                if (n < 2) { out.trace_hash = tr.h; return out; }
                positions.erase(std::remove_if(positions.begin(), positions.end(), [&](size_t i) { return i >= n; }), positions.end());
            }
            for (size_t i : positions) {
                auto bad = bulk;
                if (c_reserved) {
                    bad[i].second = std::numeric_limits<K>::max(); // the tombstone value of the wrapper's mapped type
                    auto hh = C::create(bad.data(), bad.size());
                    st.inc("fault.invalid_op"); st.inc("fault_positions_enumerated");
                    tr.add(hh ? 1 : 0);
                    if (hh) { C::destroy(hh); out.fail("c-reserved-not-null", "create() returned a container for an array holding the reserved mapped value at position " + std::to_string(i) + " of " + std::to_string(n)); break; }
                    continue;
                }
                if (bad[i - 1].first == std::numeric_limits<K>::min()) continue;
                bad[i].first = K(bad[i - 1].first - 1);
                auto hh = C::create(bad.data(), bad.size());
                st.inc("fault.invalid_op"); st.inc("fault_positions_enumerated");
                tr.add(hh ? 1 : 0);
                if (hh) { C::destroy(hh); out.fail("c-unsorted-not-null", "create() returned a container for an array with an out-of-order pair at position " + std::to_string(i) + " of " + std::to_string(n)); break; }
            }
            st.mark("nontrivial", sim::mix(sim::hash_str(ce.name.c_str()), n));
            out.trace_hash = tr.h;
            return out;
        }
        sim::begin_run(env);
        typename C::handle h = (bulk.empty() && p.get("create") == "empty") ? C::create_empty() : C::create(bulk.data(), bulk.size());
        if (!h) { sim::end_run(); out.fail("create-null", "create() returned NULL for a sorted array of " + std::to_string(bulk.size()) + " pairs"); out.trace_hash = tr.h; return out; }
        if (chunks_for(env, bulk.size()) > 1 && sim::g_env_stats.max_team >= 2) st.inc("sim_active_runs");
        std::vector<void *> held;
        size_t updates = 0;
        // bystander: a second container of the same type, filled once, alive during the whole history and compared at the end
        // (state shared between handles - statics, caches keyed by something else than the handle - shows up here)
        typename C::handle bystander = nullptr;
        Model by_model;
        if (size_t bn = (size_t) p.get_u("bystander", 0)) {
            bystander = C::create_empty();
            gen::KeyMap<K> bkm;
            for (size_t i = 0; i < bn && bystander; ++i) { K k = bkm.at(std::min<uint64_t>(bkm.U, 7 + 3 * (uint64_t) i)), v = K(1000 + i); if (is_reserved(k) || is_reserved(v)) continue; C::insert(bystander, k, v); by_model[k] = v; }
            st.inc("bystander_runs");
        }

        auto walk = [&](void *it, typename Model::const_iterator mi, size_t steps, const std::string &what) {
            size_t budget = model.size() + 2, done = 0;
            K k, v;
            while (done < steps) {
                bool more = C::next(h, it, &k, &v);
                if (more != (mi != model.end())) { out.fail("c-traversal-length", what + ": iterator_next " + (more ? "continues past the last live key" : "returned false early") + " after " + std::to_string(done) + " elements"); return; }
                if (!more) {
                    // an exhausted handle may be polled again: it keeps answering false (and touches nothing it should not)
                    if (C::next(h, it, &k, &v)) out.fail("c-traversal-length", what + ": iterator_next returned true after it had returned false");
                    st.inc("steps.exhausted_iterator_polled");
                    return;
                }
                tr.add((uint64_t) v);
                if (k != mi->first || v != mi->second) { out.fail("c-traversal-element", what + ": element " + std::to_string(done) + " is key " + key_text(k) + ", expected " + key_text(mi->first) + " with its current value"); return; }
                ++mi; ++done;
                if (budget-- == 0) { out.fail("c-traversal-length", what + ": more elements than live keys"); return; }
            }
        };

        for (size_t oi = 0; oi < ops.size() && out.ok; ++oi) {
            const Op &o = ops[oi];
            tr.add_str(o.kind);
            if (o.kind == "I" && o.a.size() >= 2) {
                K k = (K) o.a[0], v = (K) (uint64_t) o.a[1];
                if (is_reserved(k) || is_reserved(v)) continue;
                // iterators held across an update are only destroyed afterwards, never advanced
                C::insert(h, k, v); model[k] = v; ++updates;
                K got; bool f = C::find(h, k, &got);
                if (!f || got != v) out.fail("c-find", "find(" + key_text(k) + ") after insert_or_assign does not return the assigned value", "KEY " + key_text(k));
            } else if (o.kind == "E" && !o.a.empty()) {
                K k = (K) o.a[0]; if (is_reserved(k)) continue;
                C::erase(h, k); model.erase(k); ++updates;
                K got; if (C::find(h, k, &got)) out.fail("c-find", "find(" + key_text(k) + ") succeeds after erase", "KEY " + key_text(k));
            } else if (o.kind == "F" && !o.a.empty()) {
                K k = (K) o.a[0], got = 0; bool f = C::find(h, k, &got); auto mi = model.find(k);
                tr.add(f ? (uint64_t) got + 1 : 0);
                if (f != (mi != model.end()) || (f && got != mi->second)) out.fail("c-find", "find(" + key_text(k) + ") disagrees with the map", "KEY " + key_text(k));
            } else if (o.kind == "L" && !o.a.empty()) {
                K k = (K) o.a[0];
                void *it = C::lower_bound(h, k);
                walk(it, model.lower_bound(k), o.a.size() > 1 ? (size_t) o.a[1] + 1 : 3, "lower_bound(" + key_text(k) + ") + iterator_next");
                C::it_destroy(it);
            } else if (o.kind == "T") {
                void *it = C::begin(h);
                walk(it, model.begin(), SIZE_MAX, "begin() + iterator_next to the end");
                C::it_destroy(it);
            } else if (o.kind == "S") {
                size_t s = C::size(h); tr.add(s);
                if (s != model.size()) out.fail("c-size", "size() = " + std::to_string(s) + ", live keys " + std::to_string(model.size()));
            } else if (o.kind == "H" && !o.a.empty()) {
                K k = (K) o.a[0];
                void *it = C::lower_bound(h, k);
                walk(it, model.lower_bound(k), o.a.size() > 1 ? (size_t) o.a[1] : 1, "held iterator");
                held.push_back(it);
                st.inc("steps.iterator_held");
            } else if (o.kind == "N") {
                for (void *it : held) C::it_destroy(it);
                held.clear();
                C::destroy(h);
                h = C::create_empty();
                if (!h) { out.fail("create-null", "create_empty() returned NULL"); break; }
                model.clear();
                st.inc("steps.handle_recreated");
            } else if (o.kind == "K" && !o.a.empty()) {
                if (!held.empty()) { size_t j = (size_t) o.a[0] % held.size(); C::it_destroy(held[j]); held.erase(held.begin() + j); st.inc("steps.iterator_destroyed_later"); }
            }
        }
        for (void *it : held) C::it_destroy(it);
        if (bystander) {
            if (out.ok) {
                std::swap(h, bystander); std::swap(model, by_model); // walk() works on (h, model)
                void *it = C::begin(h);
                walk(it, model.begin(), SIZE_MAX, "bystander container (never touched by the history): begin() + iterator_next to the end");
                C::it_destroy(it);
                size_t s = C::size(h);
                if (out.ok && s != model.size()) out.fail("c-size", "bystander container: size() = " + std::to_string(s) + ", live keys " + std::to_string(model.size()));
                std::swap(h, bystander); std::swap(model, by_model);
            }
            C::destroy(bystander);
        }
        if (h) C::destroy(h);
        note_env_stats(st);
        sim::end_run();
        tr.add(sim_stat_decision_hash());
        st.inc("updates", updates);
        if (updates >= 2) st.mark("nontrivial", tr.h);
        if (st.samples.size() < 3 && st.counters["runs"] % 40 == 9) st.samples.push_back(ce.name + " bulk=" + std::to_string(bulk.size()) + " ops=" + std::to_string(ops.size()));
        out.trace_hash = tr.h;
        return out;
    }
};

/// C20 for DynamicPGMIndex, enumeration modes (level fault_enumeration): the invalid argument is the injected fault and
/// its position is enumerated.
template<typename K, typename V, size_t PE>
struct DynEnumClass {
    using PGMType = pgm::PGMIndex<K, PE>;
    using Dyn = pgm::DynamicPGMIndex<K, V, PGMType>;
    using VM = ValueMap<V>;

    static PlanText gen(const CfgEntry &ce, const GenCtx &g, Stats &st) {
        PlanText p;
        Rng cfg = sim::stream(g.run_seed, "cfg"), work = sim::stream(g.run_seed, "work");
        p.set("engine", "histsim");
        p.set("prop", g.prop);
        p.set("cfg", ce.name);
        p.set("procs", 1); p.set("maxthreads", 1);
        if (cfg.chance(150)) { p.set("mode", "bases"); return p; }
        p.set("mode", VM::has_reserved && cfg.chance(300) ? "bulk-reserved" : "bulk-unsorted");
        size_t n = cfg.chance(800) ? (size_t) cfg.range(2, 64) : (size_t) cfg.range(65, 3000);
        gen::KeyMap<K> km;
        uint64_t cur = work.range(0, km.U / 2);
        for (size_t i = 0; i < n; ++i) {
            p.item('P', key_text(km.at(cur)) + " " + std::to_string(i + 1));
            if (!work.chance(150)) { uint64_t gap = 1 + work.magnitude(12); cur = (km.U - cur < gap) ? km.U : cur + gap; } // repeated keys are allowed
        }
        p.set("positions", n <= 64 ? "all" : "sample");
        p.set("qseed", work.next() >> 1);
        (void) st;
        return p;
    }

    static Outcome run(const CfgEntry &ce, const PlanText &p, const RunCtx &, Stats &st) {
        Outcome out;
        Trace tr;
        if (p.get("mode") == "bases") {
            // every base in 0..255: >= 3 and not a power of two must be rejected with std::invalid_argument
            for (unsigned b = 0; b < 256; ++b) {
                bool must_throw = b >= 3 && (b & (b - 1)) != 0;
                if (!must_throw) { if (b < 2) continue; } // nothing is demanded for 0 and 1; powers of two must construct
                std::string got = "no exception";
                try { Dyn d((uint8_t) b, 1, 0); (void) d; }
                catch (const std::invalid_argument &) { got = "invalid_argument"; }
                catch (const std::exception &e) { got = std::string("other exception: ") + e.what(); }
                tr.add_str(got);
                st.inc("fault.invalid_op");
                if (must_throw && got != "invalid_argument") { out.fail("base-not-rejected", "base " + std::to_string(b) + " (>= 3, not a power of two): " + got); break; }
                if (!must_throw && got != "no exception") { out.fail("valid-base-rejected", "base " + std::to_string(b) + " (a power of two): " + got); break; }
            }
            st.mark("nontrivial", 0xba5e);
            st.mark("nontrivial", 0xba5f);
            out.trace_hash = tr.h;
            return out;
        }
        std::vector<std::pair<K, V>> bulk;
        for (auto &it : p.items) if (it.first == 'P') { auto t = sim::split_ws(it.second); if (t.size() >= 2) bulk.emplace_back((K) sim::text_to_ld(t[0]), VM::make(std::strtoull(t[1].c_str(), nullptr, 10))); }
        std::stable_sort(bulk.begin(), bulk.end(), [](auto &a, auto &b) { return a.first < b.first; });
        size_t n = bulk.size();
        if (n < 2) { out.trace_hash = tr.h; return out; }
        // the valid range must be accepted
        try { Dyn d(bulk.begin(), bulk.end(), 8, 0, 1); (void) d; }
        catch (const std::exception &e) { out.fail("sorted-bulk-rejected", std::string("a sorted range was rejected: ") + e.what()); out.trace_hash = tr.h; return out; }
        Rng r(p.get_u("qseed", 1));
        std::vector<size_t> positions;
        if (p.get("positions", "all") == "all") for (size_t i = 1; i < n; ++i) positions.push_back(i);
        else for (int t = 0; t < 40; ++t) positions.push_back((size_t) r.range(1, n - 1));
        struct PodPair { K first; V second; };
        // the range is handed over through vector iterators, raw pointers to std::pair, or raw pointers to a plain struct
        auto construct = [&](const std::vector<std::pair<K, V>> &v, size_t kind) {
            if (kind % 3 == 1) { const std::pair<K, V> *a = v.data(); Dyn d(a, a + v.size(), 8, 0, 1); (void) d; }
            else if (kind % 3 == 2) { std::vector<PodPair> pod; for (auto &kv : v) pod.push_back(PodPair{kv.first, kv.second}); const PodPair *a = pod.data(); Dyn d(a, a + pod.size(), 8, 0, 1); (void) d; }
            else { Dyn d(v.begin(), v.end(), 8, 0, 1); (void) d; }
        };
        if (p.get("mode") == "bulk-reserved") {
            if constexpr (VM::has_reserved) {
                // strictly increasing keys, the reserved mapped value at position i: every entry point must reject it
                std::vector<std::pair<K, V>> distinct;
                for (auto &kv : bulk) if (distinct.empty() || distinct.back().first < kv.first) distinct.push_back(kv);
                if (p.get("positions", "all") == "all") { positions.clear(); for (size_t i = 0; i < distinct.size(); ++i) positions.push_back(i); }
                for (size_t i : positions) {
                    if (i >= distinct.size()) continue;
                    for (size_t kind = 0; kind < 3; ++kind) {
                        auto bad = distinct;
                        bad[i].second = VM::reserved();
                        std::string got = "no exception";
                        try { construct(bad, kind); }
                        catch (const std::invalid_argument &) { got = "invalid_argument"; }
                        catch (const std::exception &e) { got = std::string("other exception: ") + e.what(); }
                        tr.add_str(got);
                        st.inc("fault.invalid_op"); st.inc("fault_positions_enumerated");
                        static const char *kn[] = {"vector iterators", "pointers to std::pair", "pointers to a plain {first, second} struct"};
                        if (got != "invalid_argument") { out.fail("reserved-value-not-rejected", std::string("bulk-load through ") + kn[kind] + " with the reserved mapped value at position " + std::to_string(i) + " of " + std::to_string(distinct.size()) + ": " + got + " instead of std::invalid_argument"); break; }
                    }
                    if (!out.ok) break;
                }
            }
            st.mark("nontrivial", sim::mix(sim::hash_str(ce.name.c_str()), n * 3 + 1));
            out.trace_hash = tr.h;
            return out;
        }
        for (size_t i : positions) {
            // make pair i smaller than pair i-1 (an out-of-order pair at position i); skip if impossible
            auto bad = bulk;
            if (bad[i - 1].first == std::numeric_limits<K>::min()) continue;
            bad[i].first = K(bad[i - 1].first - 1);
            std::string got = "no exception";
            try { construct(bad, i); }
            catch (const std::invalid_argument &) { got = "invalid_argument"; }
            catch (const std::exception &e) { got = std::string("other exception: ") + e.what(); }
            tr.add_str(got);
            st.inc("fault.invalid_op");
            st.inc("fault_positions_enumerated");
            if (got != "invalid_argument") { out.fail("unsorted-bulk-not-rejected", "out-of-order pair at position " + std::to_string(i) + " of " + std::to_string(n) + ": " + got + " instead of std::invalid_argument"); break; }
        }
        st.mark("nontrivial", sim::mix(sim::hash_str(ce.name.c_str()), n));
        if (p.get("positions") == "all") st.inc("exhaustive_small_bulks");
        out.trace_hash = tr.h;
        return out;
    }
};

#define EB_REGISTER_CDYN(T)                                                                                                \
    static ::ea::Registrar EB_CAT(reg_cdyn_, __COUNTER__)(::ea::CfgEntry{"cdyn:" #T, "cdyn", 16, 4, false, &::eb::CDynClass<::eb::CDyn_##T>::gen, &::eb::CDynClass<::eb::CDyn_##T>::run});
#define EB_REGISTER_DYNENUM(K, V, PE)                                                                                      \
    static ::ea::Registrar EB_CAT(reg_dynenum_, __COUNTER__)(::ea::CfgEntry{std::string("dynenum:") + ::ea::key_name<K>() + ":" + ::eb::ValueMap<V>::name() + ":e" #PE, "dynenum", PE, 4, false, \
        &::eb::DynEnumClass<K, V, PE>::gen, &::eb::DynEnumClass<K, V, PE>::run});

}
