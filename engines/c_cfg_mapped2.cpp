#include "c_mapped.hpp"
EC_REGISTER_MAPPED(uint16_t, 3, 0, float, f32)
EC_REGISTER_MAPPED(int16_t, 16, 4, float, f32)
EC_REGISTER_MAPPED(int64_t, 128, 0, float, f32)
EC_REGISTER_MAPPED(uint32_t, 64, 65, double, f64)
