#include "a_variants.hpp"
EA_REGISTER_BUCK(uint8_t, 1, 64, 8, float, f32)
EA_REGISTER_BUCK(uint16_t, 3, 100, 0, double, f64)
EA_REGISTER_BUCK(uint32_t, 128, 4096, 32, float, f32)
EA_REGISTER_BUCK(uint64_t, 4, 4096, 0, float, f32)
EA_REGISTER_BUCK(uint32_t, 1, 3, 0, float, f32)
EA_REGISTER_BUCK(uint64_t, 64, 64, 32, double, f64)
