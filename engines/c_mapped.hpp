// Engine C (filesim): MappedPGMIndex over the file-layer shim (E2) — C11 (multiset queries), C12 (range / raw file /
// reopen equivalence).  Container operations form a history; I/O faults are attached to operations by call index.
#pragma once
#include "a_common.hpp"
#include "b_dynamic.hpp"   // PgmPeek
#include "a_pgm.hpp"       // check_routing (C07 oracle)
#include "../sim/io_shim.hpp"
#include "pgm/pgm_index_variants.hpp"
#include <deque>
#include <fcntl.h>
#include <memory>
#include <sys/stat.h>
#include <sys/syscall.h>
#include <unistd.h>

namespace ec {

using namespace ea;

inline const std::string &scratch_dir() {
    static char path[256];
    static const std::string *d = [] {
        std::string base = "/dev/shm";
        struct stat st;
        if (::stat(base.c_str(), &st) != 0 || access(base.c_str(), W_OK) != 0) base = "/verif/build/scratch";
        std::string dir = base + "/pgmverif-" + std::to_string(getpid());
        std::string cmd = "mkdir -p " + dir;
        if (std::system(cmd.c_str()) != 0) { std::fprintf(stderr, "cannot create %s\n", dir.c_str()); std::exit(2); }
        std::snprintf(path, sizeof path, "%s", dir.c_str());
        std::atexit([] { char c[300]; std::snprintf(c, sizeof c, "rm -rf %s", path); int r = std::system(c); (void) r; });
        return new std::string(dir); // intentionally never destroyed (used by the exit handler's path buffer only)
    }();
    return *d;
}

/// Harness-side file access: raw system calls, invisible to the shim's faults and monitor.
struct HarnessIo {
    HarnessIo() { sim::g_io.harness_io = true; }
    ~HarnessIo() { sim::g_io.harness_io = false; }
};
inline bool read_file(const std::string &path, std::vector<unsigned char> &out) {
    HarnessIo h;
    int fd = (int) syscall(SYS_openat, AT_FDCWD, path.c_str(), O_RDONLY, 0);
    if (fd < 0) return false;
    out.clear();
    unsigned char buf[65536];
    ssize_t r;
    while ((r = syscall(SYS_read, fd, buf, sizeof buf)) > 0) out.insert(out.end(), buf, buf + r);
    syscall(SYS_close, fd);
    return r == 0;
}
inline bool write_file(const std::string &path, const void *data, size_t n) {
    HarnessIo h;
    int fd = (int) syscall(SYS_openat, AT_FDCWD, path.c_str(), O_WRONLY | O_CREAT | O_TRUNC, 0644);
    if (fd < 0) return false;
    const char *p = (const char *) data;
    while (n > 0) { ssize_t w = syscall(SYS_write, fd, p, n); if (w <= 0) { syscall(SYS_close, fd); return false; } p += w; n -= (size_t) w; }
    syscall(SYS_close, fd);
    return true;
}
inline void remove_file(const std::string &path) { HarnessIo h; syscall(SYS_unlinkat, AT_FDCWD, path.c_str(), 0); }
inline uint64_t hash_bytes(const std::vector<unsigned char> &b) { uint64_t h = 0xcbf29ce484222325ull; for (unsigned char c : b) h = (h ^ c) * 0x100000001b3ull; return h; }

struct FileOp {
    std::string kind, slot, file;
    std::vector<sim::IoFault> faults;
};

inline FileOp parse_file_op(const std::string &s) {
    FileOp o;
    auto t = sim::split_ws(s);
    size_t i = 0;
    if (i < t.size()) o.kind = t[i++];
    for (; i < t.size(); ++i) {
        if (t[i][0] == '@') { // @index:kind[:param]
            std::string f = t[i].substr(1);
            size_t c1 = f.find(':'), c2 = f.find(':', c1 + 1);
            sim::IoFault fl;
            fl.call_index = (size_t) std::strtoull(f.substr(0, c1).c_str(), nullptr, 10);
            fl.kind = f.substr(c1 + 1, c2 == std::string::npos ? std::string::npos : c2 - c1 - 1);
            fl.param = c2 == std::string::npos ? 0 : std::strtoull(f.substr(c2 + 1).c_str(), nullptr, 10);
            o.faults.push_back(fl);
        } else if (o.slot.empty()) o.slot = t[i];
        else if (o.file.empty()) o.file = t[i];
    }
    return o;
}

template<typename K, size_t E, size_t R, typename F>
struct MappedClass {
    using Index = pgm::MappedPGMIndex<K, E, R, F>;
    using Base = pgm::PGMIndex<K, E, R, F>;
    using Peek = eb::PgmPeek<Base>;

    static PlanText gen(const CfgEntry &ce, const GenCtx &g, Stats &st) {
        PlanText p;
        Rng cfg = sim::stream(g.run_seed, "cfg"), work = sim::stream(g.run_seed, "work"), env = sim::stream(g.run_seed, "env"), fault = sim::stream(g.run_seed, "fault");
        p.set("engine", "filesim");
        p.set("prop", g.prop);
        p.set("cfg", ce.name);
        bool boundary = g.profile == "boundary";
        if (scale_slot(g) && sizeof(K) == 8) {
            // scale slot: an output file well above 4 MiB (block-wise writers, very many write calls), every construction path
            p.set("recipe", "walk " + std::to_string(cfg.range(530000, 1100000)) + " " + std::to_string(work.next() >> 1) + " " + std::to_string(cfg.range(4, 30)) + " 0 0");
            p.set("recipe_start", cfg.range(0, 100000));
            p.set("scale", 1);
            draw_env(p, env, true, false);
            p.set("motifs", "scale-walk+");
            p.set("qseed", work.next() >> 1);
            p.set("qmax", 3000);
            p.set("io_faults", cfg.coin() ? "on" : "none");
            if (cfg.chance(300)) p.set("container", "deque");
            auto flt = [&](const char *k) { return p.get("io_faults") == "on" ? " @" + std::to_string(fault.below(1200)) + ":" + k + ":" + std::to_string(fault.below(100000)) : std::string(); };
            p.item('O', "create-range s0 F1" + flt("short_io") + flt("eintr"));
            p.item('O', "query s0");
            p.item('O', "write-raw");
            p.item('O', "create-raw s1 F2" + flt("short_io"));
            p.item('O', "compare-files");
            p.item('O', "query s1");
            p.item('O', "reopen s2 F1" + flt("short_io"));
            p.item('O', "query s2");
            p.item('O', "reopen s3 F2");
            p.item('O', "query s3");
            return p;
        }
        bool large = false;
        size_t n = boundary ? (size_t) cfg.range(1, 4) : draw_n(cfg, E, g, large, 6);
        // sometimes a key count whose raw file is an exact multiple of the page size: a read one key past the mapped input then
        // lands on the guard page the shim puts behind every mapping
        if (!boundary && n >= 4096 / sizeof(K) && cfg.chance(250)) n = (n / (4096 / sizeof(K))) * (4096 / sizeof(K));
        draw_env(p, env, large, g.tsan);
        std::string sig = gen_keys_into<K>(p, n, E, chunks_for(env_from_plan(p), n), cfg, work);
        // duplicate runs sized against the search range and the gallop of upper_bound: around powers of two, ending at n
        if (!p.keys.empty() && cfg.chance(400)) {
            static const size_t pows[] = {1, 2, 3, 4, 7, 8, 9, 15, 16, 17, 31, 32, 33, 63, 64, 65, 127, 128, 129, 255, 256, 257, 1023, 1025};
            size_t L = cfg.coin() ? pows[cfg.below(sizeof pows / sizeof *pows)] : (size_t) cfg.range(2 * E + 1, 2 * E + 4);
            if (cfg.chance(100)) L = 100 * E;
            long double last = p.keys.back();
            if (cfg.coin()) { for (size_t i = 0; i < L; ++i) p.keys.push_back(last); sig += "tailrun+"; }      // run reaching end()
            else if (p.keys.size() > L) { size_t at = work.below(p.keys.size() - L); for (size_t i = 0; i < L; ++i) p.keys[at + i] = p.keys[at]; sig += "midrun+"; }
        }
        p.set("motifs", sig);
        p.set("qseed", work.next() >> 1);
        p.set("qmax", large ? 800 : 1500);
        // fault kinds enabled in this run (swarm); half of the runs are fault-free so that the relaxation hides no ordinary bug
        std::vector<std::string> kinds;
        if (cfg.coin()) {
            if (cfg.chance(700)) kinds.push_back("eintr");
            if (cfg.chance(700)) kinds.push_back("short_io");
            if (cfg.chance(250)) kinds.push_back("open_fail");
            if (cfg.chance(250)) kinds.push_back("mmap_fail");
        }
        p.set("io_faults", kinds.empty() ? "none" : "on");
        if (cfg.chance(300)) p.set("container", "deque");
        auto faults_for = [&](size_t est_calls) {
            std::string s;
            if (kinds.empty()) return s;
            size_t cnt = fault.below(4);
            for (size_t i = 0; i < cnt; ++i) {
                const std::string &k = kinds[fault.below(kinds.size())];
                s += " @" + std::to_string(fault.below(est_calls + 2)) + ":" + k + ":" + std::to_string(fault.below(100000));
            }
            return s;
        };
        size_t est = 4 + n * sizeof(K) / 8000; // rough number of I/O calls of a create
        // history of container operations
        bool sweep = !boundary && n <= 64 && cfg.chance(120);
        if (sweep) { p.set("sweep", 1); kinds.clear(); p.set("io_faults", "none"); }
        std::vector<std::string> live; // slots
        bool have_f1 = false, have_f2 = false, have_raw = false;
        int slot_no = 0;
        size_t nops = (size_t) cfg.range(3, 12);
        for (size_t i = 0; i < nops; ++i) {
            unsigned r = (unsigned) work.below(10);
            std::string slot = "s" + std::to_string(slot_no);
            auto prefill = [&](const char *f) { if (work.chance(250)) p.item('O', "prefill " + std::to_string(work.coin() ? work.range(1, 200) : work.range(1, 3 * n * sizeof(K) + 4096)) + " " + f); };
            if (!have_f1 && (r < 5 || i == 0)) { prefill("F1"); p.item('O', "create-range " + slot + " F1" + faults_for(est)); live.push_back(slot); ++slot_no; have_f1 = true; }
            else if (!have_f2 && r < 7) { if (!have_raw) { p.item('O', "write-raw"); have_raw = true; } prefill("F2"); p.item('O', "create-raw " + slot + " F2" + faults_for(est)); live.push_back(slot); ++slot_no; have_f2 = true; }
            else if (r < 5 && (have_f1 || have_f2)) { std::string f = have_f1 && (!have_f2 || work.coin()) ? "F1" : "F2"; p.item('O', "reopen " + slot + " " + f + faults_for(est / 2 + 3)); live.push_back(slot); ++slot_no; }
            else if (r < 7 && !live.empty()) { p.item('O', "query " + live[work.below(live.size())]); }
            else if (r < 8 && !live.empty()) { size_t j = work.below(live.size()); p.item('O', "destroy " + live[j]); live.erase(live.begin() + j); }
            else if (have_f1 && have_f2) p.item('O', "compare-files");
            else if (!live.empty()) p.item('O', "query " + live[work.below(live.size())]);
        }
        for (auto &s : live) p.item('O', "query " + s);
        if (have_f1 && have_f2) p.item('O', "compare-files");
        { Rng use = sim::stream(g.run_seed, "usage"); if (!live.empty() && !sweep && use.chance(200)) p.item('O', "successor " + live[use.below(live.size())]); }
        (void) st;
        return p;
    }

    struct Instance {
        std::unique_ptr<Index> idx;
        std::string file;
    };

    struct Ctx {
        const std::vector<K> *data;
        std::vector<K> queries;
        sim::Env env;
        std::string f1, f2, raw;
        std::unique_ptr<Base> ref; // plain PGMIndex built over the keys under the same simulated machine
        bool f1_valid = false, f2_valid = false, raw_valid = false;
        std::map<std::string, Instance> inst;
        bool have_hdr = false;                       ///< index part (levels_offsets, segments) of the first instance of the history
        std::vector<size_t> hdr_offs;
        std::vector<unsigned char> hdr_segs;
        std::map<std::string, std::vector<unsigned char>> reopened_ref; ///< bytes of a file at its (latest) reopen: must stay what they are
        std::vector<size_t> calls_per_op;
        bool check_c11 = true, check_c12 = true;
        bool check_c07 = false;  ///< judge the routing of every search through hook H2 (bounded work per level), nothing else
        bool use_deque = false; ///< the range constructor is fed from a std::deque (random access, not contiguous)
    };

    static std::string file_of(Ctx &c, const std::string &f) { return f == "F2" ? c.f2 : c.f1; }
    static bool &valid_of(Ctx &c, const std::string &f) { return f == "F2" ? c.f2_valid : c.f1_valid; }

    /// a file that was reopened must still hold the bytes it held then (queries and destruction are read-only)
    static void check_unaltered(Ctx &c, const std::string &file, const std::string &what, Outcome &out) {
        auto it = c.reopened_ref.find(file);
        if (it == c.reopened_ref.end()) return;
        std::vector<unsigned char> now;
        read_file(file, now);
        if (now != it->second) out.fail("reopen-altered-file", what + ": the file's bytes changed after it was reopened (through the reopened object's queries or destruction)");
    }

    static void check_header(Ctx &c, const Index &ix, const std::string &what, Outcome &out) {
        const Base &b = static_cast<const Base &>(ix);
        const Base &r = *c.ref;
        if (Peek::count(b) != c.data->size()) { out.fail("header-n", what + ": n = " + std::to_string(Peek::count(b)) + ", expected " + std::to_string(c.data->size())); return; }
        if (Peek::first(b) != c.data->front()) { out.fail("header-first-key", what + ": first_key = " + key_text(Peek::first(b)) + ", the first key of the sequence is " + key_text(c.data->front())); return; }
        // The index part of every instance of a history must be the same (the construction paths write byte-identical
        // files, a reopened object holds what the file holds): the first instance of the history is the reference.
        // (A plain PGMIndex over the same keys, `r`, is only consulted for a probe: C12 does not say that a mapped index
        // is segmented exactly like a PGMIndex.)
        const auto &sa = Peek::segs(b);
        if (!c.have_hdr) {
            c.have_hdr = true; c.hdr_offs.assign(Peek::offs(b).begin(), Peek::offs(b).end());
            c.hdr_segs.assign(reinterpret_cast<const unsigned char *>(sa.data()), reinterpret_cast<const unsigned char *>(sa.data()) + sa.size() * sizeof(sa[0]));
            (void) r;
            return;
        }
        if (std::vector<size_t>(Peek::offs(b).begin(), Peek::offs(b).end()) != c.hdr_offs) { out.fail("header-levels-offsets", what + ": levels_offsets differ from those of the first container of this history (same sequence)"); return; }
        if (sa.size() * sizeof(sa[0]) != c.hdr_segs.size() || (!sa.empty() && std::memcmp(sa.data(), c.hdr_segs.data(), c.hdr_segs.size()) != 0)) { out.fail("header-segments", what + ": segments differ from those of the first container of this history (same sequence)"); return; }
    }

    static void check_queries(Ctx &c, const Index &ix, const std::string &what, Outcome &out, Trace &tr, Stats &st) {
        const auto &d = *c.data;
        if (ix.size() != d.size()) { out.fail("size", what + ": size() = " + std::to_string(ix.size()) + ", expected " + std::to_string(d.size())); return; }
        if ((size_t) (ix.end() - ix.begin()) != d.size()) { out.fail("size", what + ": end() - begin() != n"); return; }
        size_t stride = d.size() > 20000 ? d.size() / 5000 : 1;
        for (size_t i = 0; i < d.size(); i += stride) if (ix.begin()[i] != d[i]) { out.fail("sequence", what + ": element " + std::to_string(i) + " is " + key_text(ix.begin()[i]) + ", expected " + key_text(d[i])); return; }
        if (ix.begin()[d.size() - 1] != d.back()) { out.fail("sequence", what + ": last element differs"); return; }
        if (c.check_c07) {
            if constexpr (R > 0) {
                const Base &b = static_cast<const Base &>(ix);
                std::vector<sim::LevelRec> recs;
                for (K q : c.queries) {
                    recs.clear();
                    sim::t_level_rec = &recs;
                    auto r = b.search(q);
                    sim::t_level_rec = nullptr;
                    tr.add(r.pos);
                    Outcome o2;
                    if (!ea::check_routing<K, R>(recs, Peek::segs(b), Peek::offs(b), b.height(), std::max(Peek::first(b), q), q, o2, st, tr)) { out.fail(o2.clause, what + ": " + o2.detail, o2.focus); return; }
                }
                st.inc("queries", c.queries.size());
            }
            return;
        }
        for (K q : c.queries) {
            std::string focus = "Q " + key_text(q);
            size_t lb = std::lower_bound(d.begin(), d.end(), q) - d.begin(), ub = std::upper_bound(d.begin(), d.end(), q) - d.begin();
            size_t glb = ix.lower_bound(q) - ix.begin();
            tr.add(glb);
            if (glb != lb) { out.fail("lower_bound", what + ": lower_bound(" + key_text(q) + ") = " + std::to_string(glb) + ", std::lower_bound = " + std::to_string(lb), focus); return; }
            size_t gub = ix.upper_bound(q) - ix.begin();
            tr.add(gub);
            if (gub != ub) { out.fail("upper_bound", what + ": upper_bound(" + key_text(q) + ") = " + std::to_string(gub) + ", std::upper_bound = " + std::to_string(ub), focus); return; }
            size_t cnt = ix.count(q);
            if (cnt != ub - lb) { out.fail("count", what + ": count(" + key_text(q) + ") = " + std::to_string(cnt) + ", std::count = " + std::to_string(ub - lb), focus); return; }
            bool has = ix.contains(q);
            if (has != (ub > lb)) { out.fail("contains", what + ": contains(" + key_text(q) + ") = " + (has ? "true" : "false"), focus); return; }
            if (ub - lb > 2 * E + 2) st.inc("reach.run_longer_than_range");
            if (ub == d.size() && ub - lb >= 2) st.inc("reach.run_reaching_end");
        }
        st.inc("queries", c.queries.size());
    }

    /// Executes the history once with the given fault overrides. `single` (op index, fault) replaces all plan faults.
    static void execute_history(const PlanText &p, const std::vector<FileOp> &ops, Ctx &c, const std::pair<size_t, sim::IoFault> *single, Outcome &out, Trace &tr, Stats &st) {
        const auto &d = *c.data;
        c.inst.clear();
        c.reopened_ref.clear();
        c.have_hdr = false;
        c.f1_valid = c.f2_valid = c.raw_valid = false;
        c.calls_per_op.assign(ops.size(), 0);
        for (size_t oi = 0; oi < ops.size() && out.ok; ++oi) {
            const FileOp &o = ops[oi];
            std::vector<sim::IoFault> faults;
            if (single) { if (single->first == oi) faults.push_back(single->second); } else faults = o.faults;
            tr.add_str(o.kind);
            std::string what = o.kind + " " + o.slot + (o.file.empty() ? "" : " " + o.file) + " (op " + std::to_string(oi) + ")";
            if (o.kind == "prefill") {
                // a stale, usually longer file already sits at the output path (left by an earlier, larger index)
                std::string file = file_of(c, o.file);
                bool mapped = false; for (auto &kv : c.inst) if (kv.second.file == file) mapped = true;
                if (mapped || valid_of(c, o.file)) continue;
                size_t bytes = (size_t) std::strtoull(o.slot.c_str(), nullptr, 10);
                std::vector<unsigned char> junk(bytes, o.file == "F2" ? 0x5A : 0xA5);
                write_file(file, junk.data(), junk.size());
                st.inc("reach.output_file_preexisting");
            } else if (o.kind == "write-raw") {
                write_file(c.raw, d.data(), d.size() * sizeof(K));
                c.raw_valid = true;
            } else if (o.kind == "create-range" || o.kind == "create-raw" || o.kind == "reopen") {
                bool is_reopen = o.kind == "reopen";
                std::string file = file_of(c, o.file);
                if (is_reopen && !valid_of(c, o.file)) continue;   // nothing specified for reopening a file whose creation never completed
                if (o.kind == "create-raw" && !c.raw_valid) continue;
                if (c.inst.count(o.slot)) continue;
                // creating over a file that live containers have mapped would change it under them: no property covers that
                if (!is_reopen) { bool mapped = false; for (auto &kv : c.inst) if (kv.second.file == file) mapped = true; if (mapped) continue; }
                std::vector<unsigned char> before;
                if (is_reopen) read_file(file, before); else c.reopened_ref.erase(file);
                sim::io_begin_op(faults);
                sim::begin_run(c.env);
                std::unique_ptr<Index> ix;
                std::string thrown, thrown_type;
                try {
                    if (o.kind == "create-range" && c.use_deque) { std::deque<K> dq(d.begin(), d.end()); st.inc("reach.range_from_deque"); ix.reset(new Index(dq.begin(), dq.end(), file)); }
                    else if (o.kind == "create-range") ix.reset(new Index(d.begin(), d.end(), file));
                    else if (o.kind == "create-raw") ix.reset(new Index(c.raw, file));
                    else ix.reset(new Index(file));
                } catch (const std::runtime_error &e) { thrown = e.what(); thrown_type = "runtime_error"; }
                catch (const std::exception &e) { thrown = e.what(); thrown_type = "other"; }
                note_env_stats(st);
                sim::end_run();
                auto write_class = sim::g_io.write_class; // copy before the op ends
                bool failstop_fired = false;
                for (auto &f : sim::g_io.faults) if (f.fired && (f.kind == "open_fail" || f.kind == "mmap_fail")) failstop_fired = true;
                for (auto &f : sim::g_io.faults) if (f.fired) st.inc("fault." + f.kind);
                bool any_fired = false;
                for (auto &f : sim::g_io.faults) any_fired |= f.fired;
                c.calls_per_op[oi] = sim::io_end_op();
                if (any_fired) st.inc("ops_with_fault_fired");
                tr.add_str(thrown_type);
                if (!thrown_type.empty()) {
                    if (!(failstop_fired && thrown_type == "runtime_error")) { out.fail("unexpected-exception", what + " threw " + thrown_type + ": " + thrown + (failstop_fired ? "" : " without any fail-stop fault")); break; }
                    st.inc("reach.failstop_constructor_threw");
                    if (!is_reopen) valid_of(c, o.file) = false; // a creation that did not complete leaves an unspecified file
                } else {
                    if (!is_reopen) valid_of(c, o.file) = true;
                    c.inst[o.slot] = Instance{std::move(ix), file};
                    if (c.check_c12) check_header(c, *c.inst[o.slot].idx, what, out);
                }
                if (is_reopen && out.ok && c.check_c12) {
                    // reopening never alters the file: same bytes, and no write-class call on the path during the operation
                    std::vector<unsigned char> after;
                    read_file(file, after);
                    if (after != before) out.fail("reopen-altered-file", what + ": the file's bytes changed during a reopen");
                    // a write-class call (open for writing, writable mapping, write of the same bytes) is recorded, not judged:
                    // the property speaks about the file being altered, which the byte comparisons decide - here, after the
                    // queries of the reopened object and after its destruction (a writable shared mapping could alter it later)
                    auto wc = write_class.find(file);
                    if (wc != write_class.end() && !wc->second.empty()) st.inc("reach.reopen_used_write_class_call");
                    if (out.ok && thrown_type.empty()) c.reopened_ref[file] = before;
                    st.inc("reach.reopen_checked");
                }
            } else if (o.kind == "query") {
                auto it = c.inst.find(o.slot);
                if (it == c.inst.end()) continue;
                if (c.check_c11) check_queries(c, *it->second.idx, what, out, tr, st);
                if (out.ok && c.check_c12) check_unaltered(c, it->second.file, what, out);
            } else if (o.kind == "successor") {
                // History step: the container queried last is destroyed and a container over different keys is created straight
                // away (the allocator hands the same address back); its first queries repeat the destroyed container's last ones.
                if (c.inst.empty() || !c.check_c11 || d.size() < 4 || c.queries.empty()) continue;
                auto last = c.inst.find(o.slot) != c.inst.end() ? c.inst.find(o.slot) : c.inst.begin();
                check_queries(c, *last->second.idx, what + " (before the successor)", out, tr, st);
                if (!out.ok) break;
                c.inst.erase(last);
                std::vector<K> d2;
                for (size_t i = 0; i < d.size(); ++i) if ((i & 1) || i + 1 == d.size()) d2.push_back(d[i]);
                std::string f3 = c.f1 + ".successor";
                sim::io_begin_op({});
                sim::begin_run(c.env);
                std::unique_ptr<Index> ix;
                try { ix.reset(new Index(d2.begin(), d2.end(), f3)); } catch (const std::exception &e) { out.fail("unexpected-exception", what + ": creating the successor container threw: " + e.what()); }
                sim::end_run();
                c.calls_per_op[oi] = sim::io_end_op();
                if (!out.ok) break;
                st.inc("successor_runs");
                for (size_t qi = c.queries.size(); qi-- > 0 && out.ok;) {
                    K q = c.queries[qi];
                    std::string focus = "Q " + key_text(q);
                    size_t lb = std::lower_bound(d2.begin(), d2.end(), q) - d2.begin(), ub = std::upper_bound(d2.begin(), d2.end(), q) - d2.begin();
                    size_t glb = ix->lower_bound(q) - ix->begin(), gub = ix->upper_bound(q) - ix->begin();
                    tr.add(glb); tr.add(gub);
                    if (glb != lb) out.fail("lower_bound", what + ": successor container (other keys, same address): lower_bound(" + key_text(q) + ") = " + std::to_string(glb) + ", std::lower_bound = " + std::to_string(lb), focus);
                    else if (gub != ub) out.fail("upper_bound", what + ": successor container: upper_bound(" + key_text(q) + ") = " + std::to_string(gub) + ", std::upper_bound = " + std::to_string(ub), focus);
                    else if (ix->count(q) != ub - lb) out.fail("count", what + ": successor container: count(" + key_text(q) + ") != " + std::to_string(ub - lb), focus);
                    else if (ix->contains(q) != (ub > lb)) out.fail("contains", what + ": successor container: contains(" + key_text(q) + ") wrong", focus);
                }
                ix.reset();
                ::unlink(f3.c_str());
            } else if (o.kind == "destroy") {
                auto it = c.inst.find(o.slot);
                std::string file = it == c.inst.end() ? std::string() : it->second.file;
                c.inst.erase(o.slot);
                if (!file.empty() && out.ok && c.check_c12) check_unaltered(c, file, what, out);
            } else if (o.kind == "compare-files") {
                if (!(c.f1_valid && c.f2_valid) || !c.check_c12) continue;
                std::vector<unsigned char> a, b;
                read_file(c.f1, a); read_file(c.f2, b);
                tr.add(hash_bytes(a));
                if (a != b) {
                    size_t i = 0; while (i < a.size() && i < b.size() && a[i] == b[i]) ++i;
                    out.fail("files-differ", "the file written from the range and the file written from the raw key file differ at byte " + std::to_string(i) + " (sizes " + std::to_string(a.size()) + " / " + std::to_string(b.size()) + ")");
                }
                st.inc("reach.files_compared");
            }
        }
        c.inst.clear();
    }

    static Outcome run(const CfgEntry &ce, const PlanText &p, const RunCtx &rc, Stats &st) {
        Outcome out;
        Trace tr;
        std::vector<K> data = keys_from_plan<K>(p);
        out.preds = common_preds(data);
        if (data.empty()) { out.trace_hash = tr.h; return out; }
        Ctx c;
        c.data = &data;
        c.env = env_from_plan(p);
        c.queries = queries_for<K>(p, data);
        c.check_c11 = rc.prop != "C12";
        c.check_c12 = rc.prop != "C11";
        if (rc.prop == "C07") { c.check_c07 = true; c.check_c12 = false; }
        c.use_deque = p.get("container") == "deque";
        std::string dir = scratch_dir();
        c.f1 = dir + "/f1.pgm"; c.f2 = dir + "/f2.pgm"; c.raw = dir + "/raw.bin";
        std::vector<FileOp> ops;
        for (auto &it : p.items) if (it.first == 'O') ops.push_back(parse_file_op(it.second));
        // reference header: a plain PGMIndex over the same keys under the same simulated machine
        sim::begin_run(c.env);
        try { c.ref.reset(new Base(data.begin(), data.end())); }
        catch (const std::exception &e) { sim::end_run(); out.fail("ctor-exception", std::string("PGMIndex over the keys threw: ") + e.what()); out.trace_hash = tr.h; return out; }
        sim::end_run();
        bool chunked = chunks_for(c.env, data.size()) > 1 && sim::g_env_stats.max_team >= 2;
        if (chunked) st.inc("sim_active_runs");

        sim::io_begin_run(dir);
        execute_history(p, ops, c, nullptr, out, tr, st);
        uint64_t fired_total = 0;
        for (auto &kv : sim::g_io.fired) fired_total += kv.second;
        if (out.ok && p.get_u("sweep", 0)) {
            // exhaustive single-fault slice: every I/O call index of every create/reopen x every gating fault kind
            std::vector<size_t> calls = c.calls_per_op;
            static const char *kinds[] = {"eintr", "short_io", "open_fail", "mmap_fail"};
            size_t cases = 0;
            for (size_t oi = 0; oi < ops.size() && out.ok; ++oi)
                for (size_t ci = 0; ci < calls[oi] && out.ok; ++ci)
                    for (const char *k : kinds) {
                        std::pair<size_t, sim::IoFault> single{oi, sim::IoFault{ci, k, 7 + ci * 131, false}};
                        remove_file(c.f1); remove_file(c.f2);
                        Trace t2;
                        execute_history(p, ops, c, &single, out, t2, st);
                        tr.add(t2.h);
                        ++cases;
                        if (!out.ok) { out.detail += " [single fault: op " + std::to_string(oi) + " call " + std::to_string(ci) + " " + k + "]"; break; }
                    }
            st.inc("single_fault_cases", cases);
            st.inc("single_fault_sweeps");
        }
        sim::io_end_run();
        remove_file(c.f1); remove_file(c.f2); remove_file(c.raw);
        if (fired_total > 0 || p.get_u("sweep", 0)) st.mark("nontrivial", tr.h);
        else st.mark("nontrivial_faultfree", tr.h);
        st.inc(p.get("io_faults", "none") == "none" ? "runs_fault_free" : "runs_fault_injecting");
        if (st.samples.size() < 3 && st.counters["runs"] % 40 == 3) {
            std::string s = ce.name + " n=" + std::to_string(data.size()) + " motifs=" + p.get("motifs") + " ops=[";
            for (auto &it : p.items) if (it.first == 'O') s += it.second + "; ";
            st.samples.push_back(s + "]");
        }
        out.trace_hash = tr.h;
        return out;
    }
};

#define EC_CAT2(a, b) a##b
#define EC_CAT(a, b) EC_CAT2(a, b)
#define EC_REGISTER_MAPPED(K, E, R, F, FN)                                                                                 \
    static ::ea::Registrar EC_CAT(reg_mapped_, __COUNTER__)(::ea::CfgEntry{std::string("mapped:") + ::ea::key_name<K>() + ":e" #E ":r" #R ":" #FN, "mapped", E, R, false, \
        &::ec::MappedClass<K, E, R, F>::gen, &::ec::MappedClass<K, E, R, F>::run});

}
