// Engine A: generic runner for static index classes described by a Traits struct.
//   Traits: K, Eps, cls(), Index, build(data) -> Index*, search(idx, q) -> Approx,
//           extra(idx, data, q, approx, out, st)  class-specific clauses (C09 bucket slice, C10 predecessor)
//           gen_tweak(plan, cfg rng)              optional
// Modes by property: search contract (C08/C09/C10/C18), lifetime histories (C19), reserved values (C20), boundary (C17).
#pragma once
#include <deque>
#include "a_common.hpp"
#include <memory>
#include <new>

namespace sim { void set_poison(bool on); extern uint64_t g_poisoned_blocks; }

namespace ea {

/// Allocator churn: allocate and free blocks of assorted sizes filled with a pattern, so that storage released by a
/// destroyed source object is reused and overwritten before the copy is queried.
inline void churn_allocator(Rng &r, size_t approx_bytes) {
    std::vector<std::unique_ptr<unsigned char[]>> blocks;
    static const size_t sizes[] = {16, 24, 32, 48, 64, 96, 128, 256, 512, 1024, 4096, 16384, 65536};
    size_t total = 0;
    while (total < approx_bytes + 4096 && blocks.size() < 4000) {
        size_t s = sizes[r.below(sizeof sizes / sizeof *sizes)] + r.below(64);
        blocks.emplace_back(new unsigned char[s]);
        std::memset(blocks.back().get(), 0xA5, s);
        total += s;
    }
    // free in seeded order
    while (!blocks.empty()) {
        size_t i = r.below(blocks.size());
        blocks[i].swap(blocks.back());
        blocks.pop_back();
    }
}

template<typename Index>
constexpr bool can_copy_construct = std::is_copy_constructible_v<Index>;
template<typename Index>
constexpr bool can_copy_assign = std::is_copy_assignable_v<Index> && std::is_default_constructible_v<Index>;
template<typename Index>
constexpr bool can_move_construct = std::is_move_constructible_v<Index>;
template<typename Index>
constexpr bool can_move_assign = std::is_move_assignable_v<Index> && std::is_default_constructible_v<Index>;

/// C19 for a static class: derive Y from X, then destroy X / churn / query Y in the order given by the plan.
/// `answers(idx)` returns a digest vector of all query answers.
template<typename Index, typename AnswerFn, typename OtherFn>
void lifetime_history(Index *&X, const std::string &steps, AnswerFn answers, OtherFn make_other, Rng &r, size_t footprint, Outcome &out, Stats &st, Trace &tr) {
    auto before = answers(*X);
    for (auto v : before) tr.add(v);
    Index *Y = nullptr;
    bool x_alive = true, x_moved = false;
    for (const std::string &s : sim::split_ws(steps)) {
        tr.add_str(s);
        if (s == "copy-construct") {
            if constexpr (can_copy_construct<Index>) { if (!Y && x_alive) { Y = new Index(*X); st.inc("steps.copy-construct"); } }
        } else if (s == "copy-assign") {
            if constexpr (can_copy_assign<Index>) { if (!Y && x_alive) { Y = new Index(); *Y = *X; st.inc("steps.copy-assign"); } }
        } else if (s == "copy-assign-over") {
            // assignment onto an already built object of the same shape: containers then assign element-wise in place
            if constexpr (can_copy_assign<Index>) { if (!Y && x_alive) { Y = make_other(); *Y = *X; st.inc("steps.copy-assign-over"); } }
        } else if (s == "move-assign-over") {
            if constexpr (can_move_assign<Index>) { if (!Y && x_alive) { Y = make_other(); *Y = std::move(*X); x_moved = true; st.inc("steps.move-assign-over"); } }
        } else if (s == "move-construct") {
            if constexpr (can_move_construct<Index>) { if (!Y && x_alive) { Y = new Index(std::move(*X)); x_moved = true; st.inc("steps.move-construct"); } }
        } else if (s == "move-assign") {
            if constexpr (can_move_assign<Index>) { if (!Y && x_alive) { Y = new Index(); *Y = std::move(*X); x_moved = true; st.inc("steps.move-assign"); } }
        } else if (s == "rederive-copy") {
            // a second derivation: the derived object (possibly obtained by a move) is itself copied and the copy replaces it
            if constexpr (can_copy_construct<Index>) { if (Y) { Index *Z = new Index(*Y); delete Y; Y = Z; st.inc("steps.rederive-copy"); } }
        } else if (s == "rederive-move") {
            if constexpr (can_move_construct<Index>) { if (Y) { Index *Z = new Index(std::move(*Y)); delete Y; Y = Z; st.inc("steps.rederive-move"); } }
        } else if (s == "swap-there-and-back") {
            // std::swap with another built object (three moves each way); Y must end up with its own content again
            if constexpr (can_move_construct<Index> && can_move_assign<Index>) {
                if (Y) { Index *O = make_other(); std::swap(*Y, *O); std::swap(*O, *Y); delete O; st.inc("steps.swap"); }
            }
        } else if (s == "vector-growth") {
            // the derived object lives in a std::vector that reallocates (elements are moved if the move constructor is
            // noexcept, copied otherwise); it is then taken out again by copy (or move)
            if constexpr (can_copy_construct<Index> || can_move_construct<Index>) {
                if (Y) {
                    std::vector<Index> v;
                    v.reserve(1);
                    v.push_back(std::move(*Y));
                    delete Y; Y = nullptr;
                    for (int g = 0; g < 3; ++g) { Index *O = make_other(); v.push_back(std::move(*O)); delete O; }
                    if constexpr (can_copy_construct<Index>) Y = new Index(v[0]); else Y = new Index(std::move(v[0]));
                    st.inc("steps.vector-growth");
                }
            }
        } else if (s == "self-assign") {
            if constexpr (can_copy_assign<Index>) { if (Y) { Index &ref = *Y; *Y = ref; st.inc("steps.self-assign"); } }
        } else if (s == "destroy-source") {
            if (x_alive) { delete X; X = nullptr; x_alive = false; st.inc("fault.destroy_source"); }
        } else if (s == "churn") {
            churn_allocator(r, footprint);
            st.inc("steps.churn");
        } else if (s == "query-copy") {
            if (Y) {
                auto now = answers(*Y);
                st.inc("steps.query-copy");
                if (now != before) {
                    size_t i = 0;
                    while (i < now.size() && i < before.size() && now[i] == before[i]) ++i;
                    out.fail("copy-answers-differ", "the derived object answers differently from the source (answer " + std::to_string(i) + " of " + std::to_string(before.size()) + ") after steps: " + steps);
                    break;
                }
            }
        } else if (s == "query-source") {
            if (x_alive && !x_moved) {
                auto now = answers(*X);
                if (now != before) { out.fail("source-answers-changed", "the source answers differently after its copy was taken; steps: " + steps); break; }
            }
        }
    }
    delete Y;
}

inline std::string draw_lifetime_steps(Rng &r) {
    static const char *derive[] = {"copy-construct", "copy-assign", "move-construct", "move-assign", "copy-assign-over", "move-assign-over", "copy-assign-over"};
    std::string s = derive[r.below(7)];
    // seeded order of: destroy source, churn, query copy (possibly several times)
    std::vector<std::string> rest = {"destroy-source", "churn", "query-copy"};
    if (r.coin()) rest.push_back("query-copy");
    if (r.chance(300)) rest.push_back("query-source");
    if (r.chance(200)) rest.push_back("self-assign");
    if (r.chance(250)) rest.push_back("rederive-copy");
    if (r.chance(150)) rest.push_back("rederive-move");
    if (r.chance(150)) rest.push_back("swap-there-and-back");
    if (r.chance(150)) rest.push_back("vector-growth");
    if (r.chance(300)) rest.push_back("churn");
    for (size_t i = rest.size(); i > 1; --i) std::swap(rest[i - 1], rest[r.below(i)]);
    for (auto &x : rest) s += " " + x;
    s += " query-copy";
    return s;
}

template<typename Tr>
struct StaticClass {
    using K = typename Tr::K;
    using Index = typename Tr::Index;
    static constexpr size_t E = Tr::Eps;

    static PlanText gen(const CfgEntry &ce, const GenCtx &g, Stats &st) {
        PlanText p;
        Rng cfg = sim::stream(g.run_seed, "cfg"), work = sim::stream(g.run_seed, "work"), env = sim::stream(g.run_seed, "env");
        p.set("engine", "buildsim");
        p.set("prop", g.prop);
        p.set("cfg", ce.name);
        bool large;
        GenCtx g2 = g;
        size_t n;
        if (g.profile == "boundary") { large = false; n = (size_t) cfg.range(1, cfg.chance(700) ? 4 : 2 * E + 4); }
        else n = draw_n(cfg, E, g2, large, g.prop == "C19" || g.prop == "C20" ? 6 : 15);
        if (large && n > Tr::max_n) n = Tr::max_n;
        draw_env(p, env, large, g.tsan);
        sim::Env e = env_from_plan(p);
        size_t geps = Tr::gen_eps(p, cfg);
        bool scale = scale_slot(g) && std::is_integral_v<K> && (g.prop == "C08" || g.prop == "C09" || g.prop == "C10" || g.prop == "C18" || (g.prop == "C17" && sizeof(K) == 8));
        bool scale19 = scale_slot(g) && std::is_integral_v<K> && sizeof(K) >= 4 && g.prop == "C19" && E <= 8;
        std::string sig;
        if (scale19) { // lifetime history over an index with tens of thousands of segments (succinct structures switch representation there)
            p.keys.clear();
            p.set("recipe", "walk " + std::to_string(cfg.range(scale_cheap_only ? 500000 : 700000, scale_cheap_only ? 700000 : 1500000)) + " " + std::to_string(work.next() >> 1) + " " + std::to_string(sizeof(K) == 4 ? 8 : 24) + " 0 0");
            p.set("recipe_start", cfg.range(0, 100000));
            p.set("scale", 1);
            sig = "scale-walk+";
        } else
        sig = scale ? set_scale_recipe<K>(p, geps, cfg, work, Tr::allow_16m, Tr::float_slopes, g.prop == "C17") : gen_keys_into<K>(p, n, geps, chunks_for(e, n), cfg, work);
        p.set("motifs", sig);
        p.set("qseed", work.next() >> 1);
        if (!scale) p.set("qmax", large ? 1500 : 2000);
        if (!p.has("recipe")) { Rng shape = sim::stream(g.run_seed, "shape"); Tr::post_keys(p, shape); }
        { Rng use = sim::stream(g.run_seed, "usage"); if (!scale && !scale19 && use.chance(100)) p.set("container", "deque"); } // random access, not contiguous
        if (!scale && !scale19 && (g.prop == "C08" || g.prop == "C09" || g.prop == "C10" || g.prop == "C18" || g.prop == "C17") && cfg.chance(g.prop == "C18" ? 400 : 150)) {
            p.set("successor", cfg.chance(300) ? 2 : 1);
            if (large) { p.set("successor_same_data", 1); p.set("successor_procs", cfg.range(1, 20)); }
        }
        if (!scale && !scale19 && (g.prop == "C08" || g.prop == "C09" || g.prop == "C10" || g.prop == "C18" || g.prop == "C17") && cfg.chance(g.prop == "C18" ? 150 : 60)) p.set("pre_reject", 1);
        { Rng use = sim::stream(g.run_seed, "usage2"); if (!scale && !scale19 && !large && !p.has("successor") && (g.prop == "C08" || g.prop == "C09" || g.prop == "C10" || g.prop == "C17") && use.chance(100)) p.set("copy_outlives", 1 + use.below(4)); }
        if (g.prop == "C19") { p.set("steps", draw_lifetime_steps(cfg)); p.set("qmax", scale19 ? 20000 : (large ? 300 : 400)); }
        if (g.prop == "C20") p.set("reserved_copies", cfg.range(1, 3));
        p.set("known_skip", 1); // queries inside the query-level predicate of a known finding are executed but not judged
        (void) st;
        return p;
    }

    static Outcome run(const CfgEntry &ce, const PlanText &p, const RunCtx &rc, Stats &st) {
        Outcome out;
        Trace tr;
        std::vector<K> data = keys_from_plan<K>(p);
        out.preds = common_preds(data) + Tr::preds(data);
        const std::string &prop = rc.prop;
        sim::Env env = env_from_plan(p);

        if (prop == "C20") {
            // valid data followed by 1..k copies of the reserved value: construction must raise std::invalid_argument
            size_t copies = (size_t) p.get_u("reserved_copies", 1);
            for (size_t i = 0; i < copies; ++i) data.push_back(sentinel_of<K>());
            sim::begin_run(env);
            std::string got = "no exception";
            try {
                std::unique_ptr<Index> idx(Tr::build(data));
                (void) idx;
            } catch (const std::invalid_argument &) { got = "invalid_argument"; }
            catch (const std::exception &e) { got = std::string("other exception: ") + e.what(); }
            note_env_stats(st);
            sim::end_run();
            st.inc("fault.invalid_op");
            tr.add_str(got);
            if (got != "invalid_argument")
                out.fail("reserved-not-rejected", "data ending with " + std::to_string(copies) + " x the reserved value (n=" + std::to_string(data.size()) + "): " + got + " instead of std::invalid_argument");
            st.mark("nontrivial", sim::mix(sim::hash_str(ce.name.c_str()), data.size() * 4 + copies));
            out.trace_hash = tr.h;
            return out;
        }

        const size_t n = data.size();
        if (n == 0) { out.trace_hash = tr.h; return out; }
        const int c0 = chunks_for(env, n);
        if (p.get_u("pre_reject", 0)) {
            // History step: a construction that is (correctly) rejected because of the reserved value precedes the real one on
            // the same thread; whatever it leaves behind (scratch buffers, statics) must not reach the next index
            std::vector<K> bad(data);
            bad.push_back(std::numeric_limits<K>::has_infinity ? std::numeric_limits<K>::infinity() : std::numeric_limits<K>::max());
            sim::begin_run(env);
            try { std::unique_ptr<Index> r(Tr::build(bad)); (void) r; } catch (const std::exception &) {}
            sim::end_run();
            st.inc("pre_reject_runs");
        }
        sim::begin_run(env);
        Index *idx = nullptr;
        try {
            using DqIt = typename std::deque<K>::iterator;
            if constexpr (std::is_constructible_v<Index, DqIt, DqIt>) {
                if (p.get("container") == "deque") { std::deque<K> dq(data.begin(), data.end()); st.inc("reach.range_from_deque"); idx = new Index(dq.begin(), dq.end()); }
            }
            if (!idx) idx = Tr::build(data);
        } catch (const std::exception &e) {
            sim::end_run();
            if (Tr::out_of_domain(e)) { st.inc("skipped_out_of_domain"); out.trace_hash = tr.h; return out; }
            if (prop != "C17") out.fail("ctor-exception", std::string("constructor threw on in-domain data: ") + e.what());
            out.trace_hash = tr.h;
            return out;
        }
        note_env_stats(st);
        sim::end_run();
        bool sim_active = c0 > 1 && sim::g_env_stats.max_team >= 2;
        if (sim_active) st.inc("sim_active_runs");
        if (c0 > 1) st.mark("teams", sim::mix(c0, sim::g_env_stats.max_team));
        tr.add(sim_stat_decision_hash());
        st.mark("tuples", sim::mix(sim::hash_str(ce.name.c_str()), sim::mix(sim::hash_str(p.get("motifs").c_str()), (uint64_t) c0 * 64 + sim::g_env_stats.max_team)));

        std::vector<K> queries = queries_for<K>(p, data, Tr::far_queries);
        size_t segs = Tr::segments(*idx);

        if (prop == "C19") {
            if (segs > 33000) st.inc("reach.c19_over_33000_segments"); // succinct select/rank structures switch to their long-block form
            Rng r(p.get_u("qseed", 1) ^ 0xC19);
            auto answers = [&](const Index &ix) {
                std::vector<uint64_t> v;
                v.reserve(queries.size() * 3);
                for (K q : queries) { Approx a = Tr::search(ix, q); v.push_back(a.pos); v.push_back(a.lo); v.push_back(a.hi); }
                return v;
            };
            sim::set_poison(true);
            auto make_other = [&]() { return Tr::build(data); };
            lifetime_history(idx, p.get("steps"), answers, make_other, r, Tr::footprint(data.size()), out, st, tr);
            sim::set_poison(false);
            st.inc("fault.poison_runs", sim::g_poisoned_blocks); sim::g_poisoned_blocks = 0;
            st.mark("nontrivial", sim::mix(tr.h, sim::hash_str(p.get("steps").c_str())));
            delete idx;
            out.trace_hash = tr.h;
            return out;
        }

        unsigned clauses = Tr::clauses;
        typename Tr::Aux aux(*idx, data);
        const bool known_skip = p.get_u("known_skip", 0) != 0;
        bool any_present = false, any_absent = false;
        Outcome scratch; // C17 exercises everything but only memory errors (sanitizer / crash) count
        Outcome &o = prop == "C17" ? scratch : out;
        for (K q : queries) {
            bool present = std::binary_search(data.begin(), data.end(), q);
            (present ? any_present : any_absent) = true;
            Approx r = Tr::search(*idx, q);
            tr.add(r.pos); tr.add(r.lo); tr.add(r.hi);
            if (aux.known_affected(q)) {
                // input inside the predicate of a known finding: gated runs skip the judgement, the reproducer does not
                if (known_skip) { st.inc("known_finding_queries_skipped"); continue; }
                if (out.preds.find(aux.known_pred()) == std::string::npos) out.preds += std::string(aux.known_pred()) + ",";
            }
            if (!check_contract(data, q, r, Tr::eps_of(p), clauses, o)) { if (prop != "C17") break; else { scratch = Outcome(); } }
            if (!aux.check(*idx, data, q, r, o, st)) { if (prop != "C17") break; else { scratch = Outcome(); } }
            st.inc("queries");
        }
        if (p.get_u("copy_outlives", 0) && n >= 4 && !queries.empty() && (out.ok || prop == "C17")) {
            // History step: a copy is taken, then the source is overwritten with another index (or destroyed); the copy must
            // keep answering for the original keys (cached pointers or iterators into the source would now dangle)
            if constexpr (can_copy_construct<Index>) {
                Index *copy = new Index(*idx);
                std::vector<K> data2;
                for (size_t i = 0; i < n; ++i) if ((i & 1) || i + 1 == n) data2.push_back(data[i]);
                bool overwritten = false;
                const uint64_t mode = p.get_u("copy_outlives", 0);
                if constexpr (can_copy_assign<Index>) {
                    if (mode >= 2) {
                        sim::begin_run(env);
                        Index *other = nullptr;
                        try { other = Tr::build(data2); } catch (const std::exception &) {}
                        sim::end_run();
                        if (other) {
                            if (mode == 2) *idx = *other;                                            // copy assignment onto a built index
                            else if constexpr (can_move_assign<Index>) { if (mode == 3) *idx = std::move(*other); else std::swap(*idx, *other); } // move assignment / swap
                            else *idx = *other;
                            delete other; overwritten = true;
                        }
                    }
                }
                if (!overwritten) { delete idx; idx = nullptr; }
                st.inc("copy_outlives_runs");
                typename Tr::Aux auxc(*copy, data);
                for (size_t qi = queries.size(); qi-- > 0;) {
                    K q = queries[qi];
                    Approx r = Tr::search(*copy, q);
                    tr.add(r.pos); tr.add(r.lo); tr.add(r.hi);
                    if (auxc.known_affected(q)) { if (known_skip) continue; }
                    if (!check_contract(data, q, r, Tr::eps_of(p), clauses, o) || !auxc.check(*copy, data, q, r, o, st)) {
                        if (prop == "C17") { scratch = Outcome(); continue; }
                        o.detail = "copy whose source was overwritten or destroyed: " + o.detail;
                        break;
                    }
                }
                delete copy;
                if (!idx) { out.trace_hash = tr.h; return out; }
                if (overwritten) {
                    // ... and the assigned-to object must answer for the keys of the index that was assigned to it
                    if (out.ok || prop == "C17") {
                        typename Tr::Aux auxa(*idx, data2);
                        for (size_t qi = 0; qi < queries.size(); ++qi) {
                            K q = queries[qi];
                            Approx r = Tr::search(*idx, q);
                            tr.add(r.pos);
                            if (auxa.known_affected(q)) { if (known_skip) continue; }
                            if (!check_contract(data2, q, r, Tr::eps_of(p), clauses, o) || !auxa.check(*idx, data2, q, r, o, st)) {
                                if (prop == "C17") { scratch = Outcome(); continue; }
                                o.detail = "index that was assigned (copy / move / swap, mode " + std::to_string(mode) + ") onto an already built one: " + o.detail;
                                break;
                            }
                        }
                    }
                    delete idx; out.trace_hash = tr.h; return out;
                }
            }
        }
        if (p.get_u("successor", 0) && n >= 4 && !queries.empty() && (out.ok || prop == "C17")) {
            // History step: the index is destroyed and a different one is created straight away (the allocator hands the
            // same address back); its first query is the last one the destroyed index answered.
            // (successor 2: the first index stays alive next to the second one and answers the same query just before it)
            const bool side_by_side = p.get_u("successor", 0) == 2;
            Index *first = nullptr;
            if (side_by_side) first = idx; else delete idx;
            idx = nullptr;
            std::vector<K> data2;
            const bool same_data = p.get_u("successor_same_data", 0) != 0; // large inputs: keep n (and the chunked build) for the second construction
            for (size_t i = 0; i < n; ++i) if (same_data ? (i != n / 2 || n < 3) : ((i & 1) || i + 1 == n)) data2.push_back(data[i]);
            sim::Env env2 = env;
            if (uint64_t sp = p.get_u("successor_procs", 0)) { env2.procs = (int) sp; env2.max_threads = (int) sp; } // another team size than the first build's
            sim::begin_run(env2);
            try { idx = Tr::build(data2); } catch (const std::exception &e) { idx = nullptr; }
            sim::end_run();
            if (!idx) { delete first; if (prop != "C17") out.fail("ctor-exception", "successor index: constructor threw on in-domain data"); out.trace_hash = tr.h; return out; }
            st.inc(side_by_side ? "side_by_side_runs" : "successor_runs");
            std::unique_ptr<Index> first_owner(first);
            typename Tr::Aux aux2(*idx, data2);
            for (size_t qi = queries.size(); qi-- > 0;) {
                K q = queries[qi];
                if (first) { Approx r1 = Tr::search(*first, q); tr.add(r1.pos); }
                Approx r = Tr::search(*idx, q);
                tr.add(r.pos); tr.add(r.lo); tr.add(r.hi);
                if (aux2.known_affected(q)) {
                    if (known_skip) { st.inc("known_finding_queries_skipped"); continue; }
                    if (out.preds.find(aux2.known_pred()) == std::string::npos) out.preds += std::string(aux2.known_pred()) + ",";
                }
                if (!check_contract(data2, q, r, Tr::eps_of(p), clauses, o) || !aux2.check(*idx, data2, q, r, o, st)) {
                    if (prop == "C17") { scratch = Outcome(); continue; }
                    o.detail = std::string(side_by_side ? "second index alive next to the first (same query sent to both): " : "successor index (built at the address of a destroyed one): ") + o.detail;
                    break;
                }
                st.inc("queries");
            }
        }
        if (segs >= 2 && any_present && any_absent) st.inc("nontrivial_runs");
        if (sim_active) st.mark("nontrivial", tr.h); else if (segs >= 2 || prop == "C17") st.mark("nontrivial", sim::mix(sim::hash_str(ce.name.c_str()), sim::hash_str(p.get("motifs").c_str()) ^ n));
        if (st.samples.size() < 3 && (sim_active || st.counters["runs"] % 50 == 7)) st.samples.push_back(abbreviate_plan(p) + " segments=" + std::to_string(segs));
        delete idx;
        out.trace_hash = tr.h;
        return out;
    }
};

/// Defaults for the per-index auxiliary object of a Traits struct.
template<typename K>
struct AuxBase {
    /// true: the query falls under a known finding (query-level predicate) and its functional result is not judged
    bool known_affected(K) const { return false; }
    const char *known_pred() const { return ""; }
};

/// Defaults for Traits.
template<typename K_, size_t Eps_>
struct TraitsBase {
    using K = K_;
    static constexpr size_t Eps = Eps_;
    static constexpr unsigned clauses = CL_RANGE | CL_FIRST_OCC | CL_LOWER_BOUND;
    static constexpr bool far_queries = true;
    static constexpr size_t max_n = 2000000;
    static constexpr bool float_slopes = false;
    static constexpr bool allow_16m = false; ///< scale slots may use more than 2^24 keys (classes predicting in the slope type)
    static size_t gen_eps(PlanText &, Rng &) { return Eps_; }
    static void post_keys(PlanText &, Rng &) {} ///< class-specific reshaping of the generated keys (explicit key lists only)
    static std::string preds(const std::vector<K> &) { return ""; }
    static bool out_of_domain(const std::exception &) { return false; }
    static size_t eps_of(const PlanText &) { return Eps; }
    static size_t footprint(size_t n) { return n * sizeof(K) / 4 + 4096; }
    struct Aux : AuxBase<K_> {
        template<typename I> Aux(const I &, const std::vector<K> &) {}
        template<typename I> bool check(const I &, const std::vector<K> &, K, const Approx &, Outcome &, Stats &) { return true; }
    };
};

#define EA_REGISTER_STATIC(ID, NAME, CLS, TR, E, R, FLOATKEY)                                                            \
    static ::ea::Registrar reg_static_##ID(::ea::CfgEntry{NAME, CLS, E, R, FLOATKEY, &::ea::StaticClass<TR>::gen, &::ea::StaticClass<TR>::run});

}
