#include "a_pgm.hpp"
// shard 5: floating keys (exact dyadic tier)
EA_REGISTER_PGM(float, 4, 2, float, f32)
EA_REGISTER_PGM(float, 16, 4, double, f64)
EA_REGISTER_PGM(double, 1, 1, double, f64)
EA_REGISTER_PGM(double, 8, 0, float, f32)
EA_REGISTER_PGM(double, 64, 65, double, f64)
EA_REGISTER_PGM(float, 2, 0, float, f32)
