"""Per-property check specifications: which engines/flavours run, budgets, evidence text."""

REAL_VS_STUB = {
    'real': ['all code under /repo/include/pgm', '/repo/c-interface/cpgm.cpp', 'libstdc++ (including basic_filebuf)',
             "the kernel's page cache and mmap for scratch files"],
    'replaced_by_simulator': ["libgomp's team creation and identity functions (GOMP_parallel, omp_get_*: link-time --wrap)",
                              'result/size/errno of interposed libc calls (engine filesim only)',
                              'the choice of which caller thread runs (baton scheduler)',
                              'operator delete poisoning (plain flavour lifetime runs)'],
}

COMMON_ASSUME = [
    'sampling, not proof: seeded search over a finite menu of template instantiations and bounded sizes',
    'engines are compiled with -DNDEBUG like the shipped RelWithDebInfo build, -march=native, g++ 12',
    'interleavings are explored at yield-point granularity (hooks H1/H2, operation boundaries); data races are judged by ThreadSanitizer over serial executions',
]


def A(weights=(9, 4, 3), extra=None):
    g = [{'engine': 'buildsim', 'flavour': 'plain', 'weight': weights[0]},
         {'engine': 'buildsim', 'flavour': 'asan', 'weight': weights[1]}]
    if weights[2]:
        g.append({'engine': 'buildsim', 'flavour': 'tsan', 'weight': weights[2]})
    return g


Q, T = 40, 900

PROPS = {
    'C01': dict(level='exploration', budget={'quick': Q, 'thorough': T}, groups=A(),
                rule='one case = (PGMIndex configuration, generated sorted key sequence, simulated machine shape, team grant, worker schedule); '
                     'non-trivial and distinct = distinct (configuration x motif signature x n) tuples whose bottom level has >= 2 segments, '
                     'plus one per distinct trace hash of a run in which a team of >= 2 simulated workers built the index',
                assumptions=COMMON_ASSUME + ['floating keys restricted to the exact dyadic tier (DESIGN.md 4.1)']),
    'C02': dict(level='exploration', budget={'quick': Q, 'thorough': T}, groups=A(),
                rule='as C01, queries are the absent-key families (below first, gap midpoints, after duplicate runs, around chunk seams, above last, max-1, 2^k-far) plus present keys',
                assumptions=COMMON_ASSUME + ['floating keys restricted to the exact dyadic tier (DESIGN.md 4.1)']),
    'C07': dict(level='exploration', budget={'quick': Q, 'thorough': T}, groups=A((10, 4, 2)),
                rule='as C01 with EpsilonRecursive > 0; every query is observed through hook H2 (per-level window and chosen segment)',
                assumptions=COMMON_ASSUME),
    'C03': dict(level='exploration', budget={'quick': Q, 'thorough': T}, groups=A((9, 4, 3)),
                rule='one case = (key type, run-time epsilon 0..1024, sorted key sequence, sequential or chunked builder under a simulated machine/team/schedule); '
                     'every point handed to the builder is recorded through hook H1 and judged against the reported line; '
                     'non-trivial and distinct = distinct (key type x motif signature x epsilon x n) with >= 2 segments, plus one per distinct trace of a run built by a team of >= 2 workers',
                assumptions=COMMON_ASSUME + ['floating keys restricted to the exact dyadic tier; long double evaluation with tolerance 1e-9']),
    'C04': dict(level='exploration', budget={'quick': Q, 'thorough': T}, groups=A((9, 4, 3)),
                rule='as C03, integer keys only; the cut points of every chunk are compared with an exact 128-bit rational feasibility oracle (hull-based, cross-checked against the O(m^2) definition on chunks <= 1500 points)',
                assumptions=COMMON_ASSUME + ['the exact feasibility oracle (oracle/pla_exact.hpp) is trusted; it shares no code with the builder and is cross-checked against its own naive version']),
    'C08': dict(level='exploration', budget={'quick': Q, 'thorough': T}, groups=A((8, 6, 2)),
                rule='one case = (CompressedPGMIndex configuration, sorted unsigned key sequence, simulated machine/team/schedule for the bottom-level build); '
                     'C01+C02 oracles on present and absent queries; non-trivial and distinct = distinct (configuration x motif signature x n) with >= 2 bottom segments and both present and absent queries, '
                     'plus one per distinct trace of a team-built index. Only E1 is simulator-owned here (weak use of the family, DESIGN.md 2); for n < 2^15 this is seeded generation against std::lower_bound.',
                assumptions=COMMON_ASSUME + ['E1 (construction team) is the only simulator-owned dimension; no fault kind applies']),
    'C09': dict(level='exploration', budget={'quick': Q, 'thorough': T}, groups=A((8, 6, 2)),
                rule='as C08 for BucketingPGMIndex, plus: empty ranges at 0 / n outside [first,last], and the bucket slice selects the rightmost segment starting at or before the key (read through a subclass)',
                assumptions=COMMON_ASSUME + ['E1 (construction team) is the only simulator-owned dimension; no fault kind applies',
                                             'fixed TopLevelBitSize too small for the segment count throws by design and is skipped as out of domain']),
    'C10': dict(level='exploration', budget={'quick': Q, 'thorough': T}, groups=A((8, 6, 2)),
                rule='as C08 for EliasFanoPGMIndex, plus: the returned pos equals the estimate recomputed from the true predecessor segment (segment keys decoded from the Elias-Fano code through a subclass)',
                assumptions=COMMON_ASSUME + ['E1 (construction team) is the only simulator-owned dimension; no fault kind applies']),
}
