"""Per-property check specifications: which engines/flavours run, budgets, evidence text."""

REAL_VS_STUB = {
    'real': ['all code under /repo/include/pgm', '/repo/c-interface/cpgm.cpp', 'libstdc++ (including basic_filebuf)',
             "the kernel's page cache and mmap for scratch files"],
    'replaced_by_simulator': ["libgomp's team creation and identity functions (GOMP_parallel, omp_get_*: link-time --wrap)",
                              'result/size/errno of interposed libc calls (engine filesim only)',
                              'the choice of which caller thread runs (baton scheduler)',
                              'operator delete poisoning (plain flavour lifetime runs)'],
}

COMMON_ASSUME = [
    'sampling, not proof: seeded search over a finite menu of template instantiations and bounded sizes',
    'engines are compiled with -DNDEBUG like the shipped RelWithDebInfo build, -march=native, g++ 12',
    'interleavings are explored at yield-point granularity (hooks H1/H2, operation boundaries); data races are judged by ThreadSanitizer over serial executions',
]


def A(weights=(9, 4, 3), extra=None):
    g = [{'engine': 'buildsim', 'flavour': 'plain', 'weight': weights[0]},
         {'engine': 'buildsim', 'flavour': 'asan', 'weight': weights[1]}]
    if weights[2]:
        g.append({'engine': 'buildsim', 'flavour': 'tsan', 'weight': weights[2]})
    return g


Q, T = 40, 900

PROPS = {
    'C01': dict(level='exploration', budget={'quick': Q, 'thorough': T}, groups=A(),
                rule='one case = (PGMIndex configuration, generated sorted key sequence, simulated machine shape, team grant, worker schedule); '
                     'non-trivial and distinct = distinct (configuration x motif signature x n) tuples whose bottom level has >= 2 segments, '
                     'plus one per distinct trace hash of a run in which a team of >= 2 simulated workers built the index',
                assumptions=COMMON_ASSUME + ['floating keys restricted to the exact dyadic tier (DESIGN.md 4.1)']),
    'C02': dict(level='exploration', budget={'quick': Q, 'thorough': T}, groups=A(),
                rule='as C01, queries are the absent-key families (below first, gap midpoints, after duplicate runs, around chunk seams, above last, max-1, 2^k-far) plus present keys',
                assumptions=COMMON_ASSUME + ['floating keys restricted to the exact dyadic tier (DESIGN.md 4.1)']),
    'C07': dict(level='exploration', budget={'quick': Q, 'thorough': T}, groups=A((10, 4, 2)),
                rule='as C01 with EpsilonRecursive > 0; every query is observed through hook H2 (per-level window and chosen segment)',
                assumptions=COMMON_ASSUME),
}
