"""Per-property check specifications: which engines/flavours run, budgets, evidence text."""

REAL_VS_STUB = {
    'real': ['all code under /repo/include/pgm', '/repo/c-interface/cpgm.cpp', 'libstdc++ (including basic_filebuf)',
             "the kernel's page cache and mmap for scratch files"],
    'replaced_by_simulator': ["libgomp's team creation and identity functions (GOMP_parallel, omp_get_*: link-time --wrap)",
                              'result/size/errno of interposed libc calls (engine filesim only)',
                              'the choice of which caller thread runs (baton scheduler)',
                              'operator delete poisoning (plain flavour lifetime runs)'],
}

COMMON_ASSUME = [
    'sampling, not proof: seeded search over a finite menu of template instantiations and bounded sizes',
    'engines are compiled with -DNDEBUG like the shipped RelWithDebInfo build, -march=native, g++ 12',
    'interleavings are explored at yield-point granularity (hooks H1/H2, operation boundaries); data races are judged by ThreadSanitizer over serial executions',
]


def B(weights=(9, 5, 2)):
    g = [{'engine': 'histsim', 'flavour': 'plain', 'weight': weights[0]},
         {'engine': 'histsim', 'flavour': 'asan', 'weight': weights[1]}]
    if weights[2]:
        g.append({'engine': 'histsim', 'flavour': 'tsan', 'weight': weights[2]})
    return g


def C(weights=(10, 6)):
    return [{'engine': 'filesim', 'flavour': 'plain', 'weight': weights[0]}, {'engine': 'filesim', 'flavour': 'asan', 'weight': weights[1]}]


def A(weights=(9, 4, 3), extra=None):
    g = [{'engine': 'buildsim', 'flavour': 'plain', 'weight': weights[0]},
         {'engine': 'buildsim', 'flavour': 'asan', 'weight': weights[1]}]
    if weights[2]:
        g.append({'engine': 'buildsim', 'flavour': 'tsan', 'weight': weights[2]})
    return g


Q, T = 40, 900

PROPS = {
    'C01': dict(level='exploration', budget={'quick': Q, 'thorough': T}, groups=A(),
                rule='one case = (PGMIndex configuration, generated sorted key sequence, simulated machine shape, team grant, worker schedule); '
                     'non-trivial and distinct = distinct (configuration x motif signature x n) tuples whose bottom level has >= 2 segments, '
                     'plus one per distinct trace hash of a run in which a team of >= 2 simulated workers built the index. Scale slots (positions in the run sequence): millions of keys from recipes (long single segment, skewed, very many segments, > 2^16 points in convex position); some indexes are built from std::deque iterators',
                assumptions=COMMON_ASSUME + ['floating keys restricted to the exact dyadic tier (DESIGN.md 4.1)']),
    'C02': dict(level='exploration', budget={'quick': Q, 'thorough': T}, groups=A(),
                rule='as C01, queries are the absent-key families (below first, gap midpoints, after duplicate runs, around chunk seams, above last, max-1, 2^k-far) plus present keys',
                assumptions=COMMON_ASSUME + ['floating keys restricted to the exact dyadic tier (DESIGN.md 4.1)']),
    'C07': dict(level='exploration', budget={'quick': Q, 'thorough': T}, groups=A((10, 3, 2)) + [{'engine': 'filesim', 'flavour': 'plain', 'weight': 1}],
                rule='as C01 with EpsilonRecursive > 0; every query is observed through hook H2 (per-level window and chosen segment); the same oracle is applied to MappedPGMIndex objects that were created, and re-opened from their file, under the histories of engine C',
                assumptions=COMMON_ASSUME),
    'C03': dict(level='exploration', budget={'quick': Q, 'thorough': T}, groups=A((9, 4, 3)),
                rule='one case = (key type, run-time epsilon 0..1024, sorted key sequence, sequential or chunked builder under a simulated machine/team/schedule); '
                     'every point handed to the builder is recorded through hook H1 and judged against the reported line; '
                     'scale slots: 0.1-0.4 M 64-bit keys in strictly convex/concave position with kinks (hulls beyond the 2^16 entries the builder reserves), epsilon 64..1024; non-trivial and distinct = distinct (key type x motif signature x epsilon x n) with >= 2 segments, plus one per distinct trace of a run built by a team of >= 2 workers',
                assumptions=COMMON_ASSUME + ['floating keys restricted to the exact dyadic tier; long double evaluation with tolerance 1e-9']),
    'C04': dict(level='exploration', budget={'quick': Q, 'thorough': T}, groups=A((9, 4, 3)),
                rule='as C03, integer keys only; the cut points of every chunk are compared with an exact 128-bit rational feasibility oracle (hull-based, cross-checked against the O(m^2) definition on chunks <= 1500 points)',
                assumptions=COMMON_ASSUME + ['the exact feasibility oracle (oracle/pla_exact.hpp) is trusted; it shares no code with the builder and is cross-checked against its own naive version']),
    'C08': dict(level='exploration', budget={'quick': Q, 'thorough': T}, groups=A((8, 6, 2)),
                rule='one case = (CompressedPGMIndex configuration, sorted unsigned key sequence, simulated machine/team/schedule for the bottom-level build); '
                     'C01+C02 oracles on present and absent queries; non-trivial and distinct = distinct (configuration x motif signature x n) with >= 2 bottom segments and both present and absent queries, '
                     'plus one per distinct trace of a team-built index. Only E1 is simulator-owned here (weak use of the family, DESIGN.md 2); for n < 2^15 this is seeded generation against std::lower_bound.',
                assumptions=COMMON_ASSUME + ['E1 (construction team) is the only simulator-owned dimension; no fault kind applies']),
    'C09': dict(level='exploration', budget={'quick': Q, 'thorough': T}, groups=A((8, 6, 2)),
                rule='as C08 for BucketingPGMIndex, plus: empty ranges at 0 / n outside [first,last], and the bucket slice selects the rightmost segment starting at or before the key (read through a subclass); a quarter of the 64-bit runs with non-power-of-two tables rescale the key span so that the table step has one to three set bits',
                assumptions=COMMON_ASSUME + ['E1 (construction team) is the only simulator-owned dimension; no fault kind applies',
                                             'fixed TopLevelBitSize too small for the segment count throws by design and is skipped as out of domain']),
    'C10': dict(level='exploration', budget={'quick': Q, 'thorough': T}, groups=A((8, 6, 2)),
                rule='as C08 for EliasFanoPGMIndex, plus: the returned pos equals the estimate recomputed from the true predecessor segment (segment keys decoded from the Elias-Fano code through a subclass)',
                assumptions=COMMON_ASSUME + ['E1 (construction team) is the only simulator-owned dimension; no fault kind applies']),
    'C18': dict(level='exploration', budget={'quick': Q, 'thorough': T}, groups=A((5, 3, 1)) + B((4, 2, 1)),
                rule='static part: one case = (C type int32/int64/uint32/uint64, run-time epsilon 1..4096, sorted C array, simulated machine/team/schedule); pgm_index_<t>_create/search judged by the C01+C02 oracles with that epsilon. '
                     'non-trivial and distinct = distinct (type x epsilon x motif signature x n) with >= 2 segments and both present and absent queries, plus one per distinct trace of a team-built index. '
                     'dynamic part: one case = a history of create/create_empty/insert_or_assign/erase/find/begin/lower_bound/iterator_next/iterator_destroy/size calls on dynamic_pgm_index_<int32|int64|uint32> judged against std::map, iterators held across updates and destroyed later, exhausted iterators polled once more, the handle destroyed and re-created inside a history, a second (bystander) container alive all along and compared at the end; static part also: destroy + create a different index at the same address (or keep both alive) and repeat the last query first; non-trivial = distinct trace hashes of histories with >= 2 updates',
                assumptions=COMMON_ASSUME + ['dynamic_pgm_index_uint64 is declared in cpgm.h but not defined in cpgm.cpp, so it cannot be linked and is not exercised', 'c-interface/cpgm.cpp is compiled from the working tree into the engine']),
    'C05': dict(level='exploration', budget={'quick': Q, 'thorough': T}, groups=B(),
                rule='one case = (DynamicPGMIndex<K,V,PGMType> configuration, base, buffer_level, index_level, bulk-load, history of 1..400 (quick) / ..5000 (thorough) operations over a small key domain with unique values (incl. copies of advanced iterators, values passed by reference into the container or as temporaries, snapshot copies judged by the same oracles, a second container on the same thread, bulk-loads through vector/deque iterators and raw pointers to std::pair or plain structs), invalid operations injected at random points, simulated machine/team/schedule for indexed levels >= 2^15 entries)' + '; after every operation find/count/lower_bound are compared with std::map, with sweeps over the key domain; non-trivial and distinct = distinct trace hashes of histories with >= 2 updates and (>= 2 non-empty levels or an erase-then-reinsert)',
                assumptions=COMMON_ASSUME),
    'C06': dict(level='exploration', budget={'quick': Q, 'thorough': T}, groups=B(),
                rule='one case = (DynamicPGMIndex<K,V,PGMType> configuration, base, buffer_level, index_level, bulk-load, history of 1..400 (quick) / ..5000 (thorough) operations over a small key domain with unique values (incl. copies of advanced iterators, values passed by reference into the container or as temporaries, snapshot copies judged by the same oracles, a second container on the same thread, bulk-loads through vector/deque iterators and raw pointers to std::pair or plain structs), invalid operations injected at random points, simulated machine/team/schedule for indexed levels >= 2^15 entries)' + '; traversal from begin() and from lower_bound results (bounded by the number of live keys), range(lo,hi) (exact length and content), size() and empty() are compared with std::map; non-trivial as C05',
                assumptions=COMMON_ASSUME),
    'C15': dict(level='exploration', budget={'quick': Q, 'thorough': T}, groups=B(),
                rule='one case = (DynamicPGMIndex<K,V,PGMType> configuration, base, buffer_level, index_level, bulk-load, history of 1..400 (quick) / ..5000 (thorough) operations over a small key domain with unique values (incl. copies of advanced iterators, values passed by reference into the container or as temporaries, snapshot copies judged by the same oracles, a second container on the same thread, bulk-loads through vector/deque iterators and raw pointers to std::pair or plain structs), invalid operations injected at random points, simulated machine/team/schedule for indexed levels >= 2^15 entries)' + '; after every insert_or_assign/erase the private layout is read through hook H3 and checked: levels strictly sorted, capacities from an independent formula, no data beyond used levels, every non-empty indexed level owns an index bit-identical to a freshly built one (property-level equivalent when chunked), emptied levels own no index; scale slots: base 2 walked through 2^18-1 resident entries (> 16 non-empty levels), and a level of capacity 2^24 bulk-loaded to capacity - need - delta (delta -2..+1, need from a sizes-only reference model of the cascade rule) with the sizes judged after every one of 0.26-1.1 M inserts; non-trivial as C05',
                assumptions=COMMON_ASSUME + ['hook H3 (friend accessor) only reads']),
    'C19': dict(level='exploration', budget={'quick': Q, 'thorough': T},
                groups=[{'engine': 'buildsim', 'flavour': 'asan', 'weight': 6}, {'engine': 'buildsim', 'flavour': 'plain', 'weight': 4},
                        {'engine': 'histsim', 'flavour': 'asan', 'weight': 4}, {'engine': 'histsim', 'flavour': 'plain', 'weight': 2}],
                rule='one case = (class and configuration, input, a lifetime history: derive Y from X by copy-construct / copy-assign / move-construct / move-assign (those the type provides), then in seeded order destroy X (heap object, storage really released), churn the allocator, update X (dynamic), query Y); '
                     'oracle: every answer of Y equals the answer X gave before; ASan: no use-after-free; plain flavour: glibc M_PERTURB overwrites every freed block; also assignment onto an already built object, second derivations (copy or move of the derived object), swap there and back, the object living in a reallocating std::vector, and scale slots of 0.5-1.5 M keys (> 33,000 segments, where the succinct structures change representation). non-trivial and distinct = distinct (trace hash x step order)',
                assumptions=COMMON_ASSUME + ['plain flavour relies on mallopt(M_PERTURB) to poison freed storage, ASan flavour on the quarantine']),
    'C20': dict(level='fault_enumeration', budget={'quick': Q, 'thorough': T},
                groups=[{'engine': 'buildsim', 'flavour': 'plain', 'weight': 5}, {'engine': 'buildsim', 'flavour': 'asan', 'weight': 3},
                        {'engine': 'histsim', 'flavour': 'plain', 'weight': 5}, {'engine': 'histsim', 'flavour': 'asan', 'weight': 3}],
                rule='the invalid argument is the injected fault and its position is what is enumerated. static classes, C wrapper: valid data followed by 1..3 copies of the reserved value (the only place a sorted array can hold it) -> std::invalid_argument / NULL; '
                     'builder: non-increasing x after 1,2,3.. points, negative epsilon; multidimensional: one coordinate of one point at width >= FieldBits, or a negative coordinate in tuples of int8/16/32/64 elements; DynamicPGMIndex: an out-of-order pair at EVERY position of bulk-loads up to 64 pairs (exhaustive per case) and sampled positions of larger ones, '
                     'the reserved mapped value at every position of a bulk-load through each iterator kind and through the C create function, every base 0..255, the reserved mapped value and lo > hi at random points of histories, with the container state (through hook H3) compared before/after a rejected insert. non-trivial and distinct = distinct (class x input size x fault position) cases',
                assumptions=COMMON_ASSUME + ['exhaustive only per small case (all positions of a bulk-load <= 64 pairs, all 256 bases); the set of cases itself is sampled']),
    'C17': dict(level='exploration', budget={'quick': Q, 'thorough': T},
                groups=[{'engine': 'buildsim', 'flavour': 'asan', 'weight': 5, 'profile': 'boundary'}, {'engine': 'buildsim', 'flavour': 'asan', 'weight': 4},
                        {'engine': 'histsim', 'flavour': 'asan', 'weight': 3, 'profile': 'boundary'}, {'engine': 'histsim', 'flavour': 'asan', 'weight': 3},
                        {'engine': 'filesim', 'flavour': 'asan', 'weight': 1, 'profile': 'boundary'}, {'engine': 'filesim', 'flavour': 'asan', 'weight': 1},
                        {'engine': 'readsim', 'flavour': 'asan', 'weight': 1, 'profile': 'boundary'}, {'engine': 'readsim', 'flavour': 'asan', 'weight': 1}],
                rule='AddressSanitizer is the oracle (a report ends the worker with exit code 77 and is gated, minimised and replayed like any other violation). boundary profile: n in 1..4 (and up to 2*Epsilon+4), empty dynamic containers, queries at lowest(), below first, above last, max-1, iterators driven to end(), boxes reaching the largest encodable code, absent points beyond all codes; '
                     'plus a slice of every engine\'s ordinary corpus (all classes, incl. MultidimensionalPGMIndex and the C wrapper) and the cheapest scale recipe (> 2^16 hull points). non-trivial and distinct = distinct (configuration x input signature) tuples executed under ASan',
                assumptions=COMMON_ASSUME + ['the claim is bounded to the inputs the engines generate; reads inside an allocation but outside the logical structure are not visible to ASan']),
    'C11': dict(level='exploration', budget={'quick': Q, 'thorough': T}, groups=C(),
                rule='one case = (MappedPGMIndex configuration, sorted integer sequence with duplicate runs sized against the search range and the gallop of upper_bound, a history of container operations: create-from-range(F1), write raw file + create-from-raw(F2), reopen(F1/F2), reopen-again, query, destroy in seeded order with several containers alive on one file; I/O faults attached to operations by call index: eintr and short_io on every read/write/writev, fail-stop open_fail/mmap_fail; half of the runs fault-free; E1 for large files; the range comes from a std::vector or a std::deque; a quarter of the creations find a stale file of another size at the output path)' + '; oracle: lower_bound/upper_bound/count/contains/begin/end/size equal the std algorithms on the original vector for present and absent keys (below front and above back included); under fail-stop faults a constructor may throw std::runtime_error, nothing else. '
                     'non-trivial and distinct = distinct trace hashes of histories in which >= 1 fault fired inside a create or load (fault-free histories are counted separately); about one small history in eight is expanded into the exhaustive single-fault sweep (every I/O call index x every gating fault kind)',
                assumptions=COMMON_ASSUME + ['write errors, crashes, torn or lost writes are not injected: no property quantifies over them and the code has no handling (DESIGN.md 3.4)']),
    'C12': dict(level='exploration', budget={'quick': Q, 'thorough': T}, groups=C(),
                rule='one case = (MappedPGMIndex configuration, sorted integer sequence with duplicate runs sized against the search range and the gallop of upper_bound, a history of container operations: create-from-range(F1), write raw file + create-from-raw(F2), reopen(F1/F2), reopen-again, query, destroy in seeded order with several containers alive on one file; I/O faults attached to operations by call index: eintr and short_io on every read/write/writev, fail-stop open_fail/mmap_fail; half of the runs fault-free; E1 for large files; the range comes from a std::vector or a std::deque; a quarter of the creations find a stale file of another size at the output path)' + '; oracle: F1 and F2 byte-identical; header fields (n, first_key, levels_offsets, segments) of every instance equal those of an index built over the same sequence; a reopen leaves the file byte-identical - right after the reopen, after the queries of the reopened object and after its destruction (write-class calls during a reopen are counted by the shim monitor, not judged). non-trivial as C11; includes the exhaustive single-fault sweep on small creations',
                assumptions=COMMON_ASSUME + ['write errors, crashes, torn or lost writes are not injected: no property quantifies over them and the code has no handling (DESIGN.md 3.4)']),
    'C16': dict(level='exploration', budget={'quick': Q, 'thorough': T},
                groups=[{'engine': 'readsim', 'flavour': 'tsan', 'weight': 9}, {'engine': 'readsim', 'flavour': 'plain', 'weight': 4}, {'engine': 'readsim', 'flavour': 'asan', 'weight': 3}],
                rule='one case = (class and configuration of the shared object: PGMIndex, Compressed, Bucketing, EliasFano, Mapped (reopened file), Multidimensional, Dynamic (updated single-threaded beforehand); 2..16 reader tasks with seeded query scripts; preemption probability; schedule seed). '
                     'readers are real threads of which exactly one runs, handed over by the seeded baton scheduler at operation, iterator-step and in-query (hook H2) yield points; the scheduler is invisible to ThreadSanitizer, so two conflicting accesses by different readers are reported whenever both occur in the run. '
                     'oracles: zero TSan reports; every call returns what it returns when run alone (readers also call size()/empty() and copy a shared, already advanced iterator and walk their copies; warm runs: a solo pass on the shared object before the readers; cold runs, 60 %: a solo pass on an identically constructed twin, so that the concurrent readers are the first callers of any query operation on the shared object) and a second solo pass afterwards agrees. non-trivial and distinct = distinct schedules (decision hashes) in which >= 2 readers were each preempted mid-script',
                assumptions=COMMON_ASSUME + ['no instruction-level interleaving: races are found by happens-before analysis over serial executions, their effects (e.g. a lost update) are not explored']),
}
