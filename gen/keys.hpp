// Swarm-style generator of sorted key sequences (DESIGN.md 4.1).
//
// Keys are generated as positions u in a universe [0, U] and mapped to the key type afterwards
// (integers: lowest() + u, so U = max-1 - lowest(); floating keys: dyadic rationals, see KeyMap).
// The sequence is sorted by construction: every motif appends keys >= the previous key.
#pragma once
#include "../sim/rng.hpp"
#include <algorithm>
#include <cmath>
#include <cstdint>
#include <limits>
#include <string>
#include <type_traits>
#include <vector>

namespace gen {

using sim::Rng;

/// Maps universe positions to keys of type K and back.
template<typename K, typename = void>
struct KeyMap;

template<typename K>
struct KeyMap<K, std::enable_if_t<std::is_integral_v<K>>> {
    using UK = std::make_unsigned_t<K>;
    static constexpr bool floating = false;
    bool allow_zero = false;
    /// positions 0..U map to lowest()..max-1 (max is the reserved sentinel)
    uint64_t U = uint64_t(UK(UK(std::numeric_limits<K>::max()) - UK(std::numeric_limits<K>::lowest()))) - 1;
    unsigned scale = 0;
    void draw(Rng &) {}
    K at(uint64_t u) const { return K(UK(UK(std::numeric_limits<K>::lowest()) + UK(u))); }
    std::string describe() const { return "int"; }
};

/// Floating keys, exact tier: key = (2*(u - U/2) + 1) * 2^-(scale+1), an odd numerator of at most 18 (float) / 42 (double)
/// bits over a power of two: every key and every key difference the library forms is exact in K, n/min-gap stays far
/// inside the slope type, and 0.0 never occurs (known finding KF-float-zero: the library's own nextafter(0.0) point is a
/// denormal and makes the slope infinite).
template<typename K>
struct KeyMap<K, std::enable_if_t<std::is_floating_point_v<K>>> {
    static constexpr bool floating = true;
    uint64_t U = sizeof(K) == 4 ? (uint64_t(1) << 17) : (uint64_t(1) << 41);
    unsigned scale = 0;
    void draw(Rng &r) { scale = (unsigned) r.below(sizeof(K) == 4 ? 11 : 21); }
    bool allow_zero = false; ///< VERIF_NO_AVOID=1: the pre-finding mapping (u - U/2) * 2^-scale, which contains 0.0
    K at(uint64_t u) const {
        if (allow_zero) return (K) std::ldexp((long double) u - (long double) (U / 2), -(int) scale);
        long double m = 2 * ((long double) u - (long double) (U / 2)) + 1;
        return (K) std::ldexp(m, -(int) scale - 1);
    }
    std::string describe() const { return "dyadic/2^" + std::to_string(scale + 1); }
};

/// Limits the length of duplicate runs (used for double keys, known finding KF-double-long-run: a run of more than about
/// 2^11 equal doubles followed by the library's nextafter point exceeds the precision of its long double arithmetic).
inline void cap_runs(std::vector<uint64_t> &pos, size_t cap, uint64_t U) {
    if (pos.empty()) return;
    uint64_t shift = 0;
    size_t run = 1;
    size_t keep = pos.size();
    for (size_t i = 1; i < pos.size(); ++i) {
        uint64_t v = (U - pos[i] < shift) ? U : pos[i] + shift;
        if (v < pos[i - 1]) v = pos[i - 1];
        if (v == pos[i - 1]) {
            if (run >= cap) {
                if (v < U) { ++shift; ++v; run = 1; }
                else { keep = i; break; } // saturated at the top: drop the tail
            } else ++run;
        } else run = 1;
        pos[i] = v;
    }
    pos.resize(keep);
}

struct KeyGenParams {
    size_t n = 100;          ///< number of keys wanted
    uint64_t U = 0;          ///< largest position
    size_t eps = 4;          ///< epsilon of the configuration, motifs are sized against it
    int chunks = 1;          ///< simulated parallelism; >1 and n >= 2^15 places motifs on the chunk seams
    bool short_segments = false; ///< heavy-tailed gaps only: about one segment per 2*eps+1..2*eps+3 keys (many segments, so
                                 ///< that an upper level of the recursive index reaches the chunking threshold)
};

enum Motif { M_AP, M_STAIRS, M_DUPRUN, M_EXPGAP, M_DENSEGAP, M_WALK, M_DUPWALK, M_COUNT };

inline const char *motif_name(int m) {
    static const char *names[] = {"ap", "stairs", "duprun", "expgap", "densegap", "walk", "dupwalk"};
    return names[m];
}

/// Generates a sorted sequence of positions. `sig` receives the motif signature (which motifs were used, flags).
inline std::vector<uint64_t> gen_positions(const KeyGenParams &p, Rng &cfg, Rng &work, std::string &sig) {
    std::vector<uint64_t> out;
    out.reserve(p.n);
    const uint64_t U = p.U;
    const size_t eps = p.eps;

    // swarm: enable a random non-empty subset of motifs
    unsigned mask = 0;
    while (mask == 0) mask = (unsigned) cfg.below(1u << M_COUNT);
    if (cfg.chance(150)) mask = 1u << cfg.below(M_COUNT); // single-motif runs
    if (p.short_segments) mask = 1u << M_WALK;
    std::vector<int> enabled;
    for (int m = 0; m < M_COUNT; ++m) if (mask >> m & 1) enabled.push_back(m);

    // start position
    uint64_t cur;
    switch (cfg.below(6)) {
        case 0: cur = 0; break;                                  // lowest()
        case 1: cur = 1; break;                                  // lowest()+1
        case 2: cur = U / 2; break;                              // around zero for signed / floating keys
        case 3: cur = U / 2 - std::min<uint64_t>(U / 2, work.magnitude(20)); break;
        case 4: cur = U - std::min<uint64_t>(U, work.magnitude(U > (1ull << 40) ? 40 : 10)); break; // near the top
        default: cur = work.range(0, U); break;
    }
    bool end_at_top = cfg.chance(120);   // force ... max-2, max-1 at the end
    unsigned gapbits = (unsigned) cfg.below(U > (1ull << 40) ? 62 : (U > 70000 ? 24 : 6)) + 1;
    if (p.short_segments) gapbits = U > (1ull << 40) ? 40 : 12;

    auto adv = [&](uint64_t gap) { cur = (U - cur < gap) ? U : cur + gap; };
    auto emit = [&]() { out.push_back(cur); };
    auto eps_len = [&]() -> size_t {
        static const int off[] = {-1, 0, 1, 2, 3};
        switch (work.below(8)) {
            case 0: return 2;
            case 1: return eps;
            case 2: return eps + 1;
            case 3: return 2 * eps + (size_t) (off[work.below(5)]);
            case 4: return 10 * eps;
            case 5: return work.range(1, 4 * eps + 4);
            case 6: return work.range(1, 3);
            default: return 2 * eps + 2;
        }
    };

    unsigned used = 0;
    emit();
    while (out.size() < p.n) {
        size_t remaining = p.n - out.size();
        int m = enabled[work.below(enabled.size())];
        used |= 1u << m;
        size_t len;
        switch (work.below(4)) {
            case 0: len = work.range(1, 8); break;
            case 1: len = work.range(1, 4 * eps + 8); break;
            case 2: len = work.range(1, std::max<size_t>(1, p.n / 8)); break;
            default: len = work.range(1, 64); break;
        }
        len = std::min(len, remaining);
        switch (m) {
            case M_AP: {
                uint64_t step = work.below(3) == 0 ? 1 : (work.coin() ? work.range(2, 100) : work.magnitude(gapbits));
                for (size_t i = 0; i < len; ++i) { adv(step); emit(); }
                break;
            }
            case M_STAIRS: { // runs of R consecutive keys then a gap: points tight on the +-eps band of a line
                size_t R = std::max<size_t>(1, eps_len());
                uint64_t G = work.coin() ? work.range(2, 4 * eps + 8) : work.magnitude(gapbits);
                for (size_t i = 0; i < len;) {
                    for (size_t j = 0; j < R && i < len; ++j, ++i) { adv(1); emit(); }
                    adv(G);
                    if (work.chance(100)) G = G > 1 ? G - 1 : G + 1; // one unit off the band
                }
                break;
            }
            case M_DUPRUN: {
                size_t R = std::min(std::max<size_t>(1, eps_len()), len);
                adv(work.coin() ? 1 : work.magnitude(gapbits));
                for (size_t j = 0; j < R; ++j) emit();
                // successor: +1, +2 or far (taken by the next motif's first advance unless forced here)
                if (out.size() < p.n) {
                    switch (work.below(3)) { case 0: adv(1); break; case 1: adv(2); break; default: adv(work.magnitude(gapbits) + 3); }
                    emit();
                }
                break;
            }
            case M_EXPGAP: {
                uint64_t g = 1;
                unsigned lim = (unsigned) work.range(3, gapbits + 2);
                for (size_t i = 0; i < len; ++i) {
                    adv(g); emit();
                    g = (g >> lim) ? 1 : g * 2;
                }
                break;
            }
            case M_DENSEGAP: {
                for (size_t i = 0; i < len; ++i) { adv(1); emit(); }
                adv(work.magnitude(U > (1ull << 40) ? 63 : gapbits)); // gap of up to 2^63
                break;
            }
            case M_WALK: {
                int kind = p.short_segments ? 2 : (int) work.below(3);
                uint64_t g = work.range(1, 50);
                for (size_t i = 0; i < len; ++i) {
                    uint64_t gap = kind == 0 ? work.range(1, g) : kind == 1 ? (uint64_t) (1 + __builtin_ctzll(work.next() | (1ull << 40))) : work.magnitude(gapbits);
                    adv(gap); emit();
                }
                break;
            }
            case M_DUPWALK: {
                unsigned pdup = (unsigned) work.range(100, 900);
                for (size_t i = 0; i < len; ++i) {
                    if (!work.chance(pdup)) adv(work.range(1, 3));
                    emit();
                }
                break;
            }
        }
    }
    out.resize(p.n);

    if (end_at_top && p.n >= 2) {
        // ... max-2, max-1 (positions U-1, U), keeping the order
        size_t t = std::min<size_t>(p.n, 1 + work.below(3));
        for (size_t i = 0; i < t; ++i) out[p.n - 1 - i] = U - std::min<uint64_t>(i, U);
        for (size_t i = p.n - t; i-- > 0;) if (out[i] > out[i + 1]) out[i] = out[i + 1]; else break;
    }

    // Place motif boundaries on the chunk seams of the parallel builder (only meaningful when it will chunk).
    bool seams = false;
    if (p.chunks > 1 && p.n >= (size_t(1) << 15)) {
        size_t chunk = p.n / (size_t) p.chunks;
        for (int i = 1; i < p.chunks; ++i) {
            if (!work.chance(600)) continue;
            size_t s = (size_t) i * chunk;
            if (s < 2 || s + 2 >= p.n) continue;
            seams = true;
            size_t a = std::min<size_t>(s - 1, std::max<size_t>(1, eps_len()));
            size_t b = std::min<size_t>(p.n - s - 1, std::max<size_t>(1, eps_len()));
            switch (work.below(6)) {
                case 5: { // run ending a few keys (1..2*eps+2) before the seam: the point the library adds after a run, the
                          // short rest of the chunk and the next chunk's first segment all start within 2*eps ranks
                    size_t j = std::min<size_t>(s - 1, (size_t) work.range(1, 2 * eps + 2));
                    size_t from = s - j > a ? s - j - a : 0;
                    for (size_t q = from; q < s - j; ++q) out[q] = out[from];
                    break;
                }
                case 0: // duplicate run straddling the seam
                    for (size_t j = s - a; j < s + b; ++j) out[j] = out[s - a];
                    break;
                case 1: // run ending exactly at the seam (s starts a new key if the data allows)
                    for (size_t j = s - a; j < s; ++j) out[j] = out[s - a];
                    break;
                case 2: // run starting exactly at the seam
                    for (size_t j = s; j < s + b; ++j) out[j] = out[s];
                    break;
                case 3: { // a run longer than a whole chunk: the chunk is skipped entirely
                    size_t e = std::min(p.n - 1, s + chunk + work.below(3));
                    if (work.coin()) { size_t back = (size_t) work.range(1, 2 * eps + 3); if (chunk > back + 2) e = std::min(p.n - 1, s + chunk - back); } // ... ending a few keys before the following seam
                    for (size_t j = s - 1; j <= e; ++j) out[j] = out[s - 1];
                    break;
                }
                default: { // dense consecutive keys across the seam (band-tight)
                    size_t lo = s - a;
                    for (size_t j = lo + 1; j < s + b; ++j) {
                        uint64_t want = out[j - 1] + (out[j - 1] < U ? 1 : 0);
                        if (want <= out[j]) out[j] = want; else break;
                    }
                    break;
                }
            }
        }
    }

    // Stretch: map the sequence affinely onto (a large part of) the whole universe. Motif-built sequences span a small
    // part of the key range; data spread over the full range (like uniformly random keys) is what makes the last
    // segment's prediction at max-1 fall short of n, i.e. what makes build() append the closing segment.
    bool stretched = false;
    if (p.n >= 2 && out.back() > out.front() && cfg.chance(250)) {
        stretched = true;
        unsigned __int128 span = out.back() - out.front();
        uint64_t target = U;
        switch (cfg.below(5)) {
            case 0: target = U; break;                                                  // last key = max-1
            case 1: target = U - work.range(0, std::min<uint64_t>(U / 2, 3 * (U / p.n) + 2)); break; // last key within a few average gaps of the top
            case 2: target = U - U / 16; break;
            case 3: target = U / 2 + work.range(0, U / 2); break;
            default: target = std::max<uint64_t>(U / 256, 1);
        }
        if ((unsigned __int128) target > span) {
            uint64_t room = U - target;
            uint64_t off = cfg.coin() ? 0 : (cfg.coin() ? room : work.range(0, room)); // room: ends as close to the top as the target allows
            uint64_t base0 = out.front();
            for (auto &v : out) v = off + (uint64_t) (((unsigned __int128) (v - base0) * target) / span);
        }
    }

    // The tail of a chunked build: the last n % chunks keys (at most 19) are where the last chunk must absorb the
    // remainder; make them break the trend of what precedes them (outliers, or a dense burst).
    bool tail = false;
    if (p.chunks > 1 && p.n >= (size_t(1) << 15) && work.chance(400)) {
        size_t t = (size_t) work.range(1, 19);
        tail = true;
        if (work.coin()) { for (size_t j = p.n - t; j < p.n; ++j) { uint64_t g = work.magnitude(gapbits + 6) + 1; out[j] = (U - out[j - 1] < g) ? U : out[j - 1] + g; } }
        else { for (size_t j = p.n - t; j < p.n; ++j) out[j] = out[j - 1] < U ? out[j - 1] + 1 : U; }
    }

    // Duplicate runs at the two ends of the sequence, of every length relative to epsilon and far beyond it: a run that
    // starts at position 0 (searches that widen to the left of a run run out of sequence) or ends at n - 1.
    bool headrun = false, tailrun = false;
    auto end_run_len = [&]() -> size_t {
        switch (work.below(4)) { case 0: return std::max<size_t>(1, eps_len()); case 1: return (size_t) work.range(2 * eps + 3, 12 * eps + 40); case 2: return (size_t) work.range(20, 3000); default: return (size_t) work.range(1, 40); }
    };
    if (p.n >= 3 && !p.short_segments && work.chance(70)) {
        size_t R = std::min(p.n - 1, end_run_len());
        for (size_t j = 1; j < R; ++j) out[j] = out[0];
        headrun = true;
    }
    if (p.n >= 3 && !p.short_segments && !tail && work.chance(70)) {
        size_t R = std::min(p.n - 1, end_run_len());
        for (size_t j = p.n - R; j < p.n; ++j) out[j] = out[p.n - 1];
        tailrun = true;
    }

    sig.clear();
    if (headrun) sig += "headrun+";
    if (tailrun) sig += "tailrun+";
    if (tail) sig += "tail+";
    if (stretched) sig += "stretch+";
    for (int m = 0; m < M_COUNT; ++m) if (used >> m & 1) { sig += motif_name(m); sig += '+'; }
    if (end_at_top) sig += "top+";
    if (seams) sig += "seams+";
    if (!out.empty() && out.front() == 0) sig += "lowest+";
    return out;
}

}
