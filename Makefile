# Builds the simulation engines from $(REPO)'s working tree (default /repo) in three flavours.
#   make -C /verif -j16 all            everything
#   make -C /verif FLAVOURS=plain all  one flavour
# Objects depend on the repository headers through -MMD, so an edited header rebuilds exactly what includes it.
REPO     ?= /repo
BUILD    ?= /verif/build
FLAVOURS ?= plain asan tsan
CXX      ?= g++
CC       ?= gcc

COMMON := -std=gnu++17 -march=native -fopenmp -DNDEBUG -DPGM_INDEX_VERIF -I$(REPO)/include -I$(REPO)/c-interface -I/verif \
          -MMD -MP -g1 -Wall -Wno-unused-function -Wno-unknown-pragmas -Wno-sign-compare -Wno-unused-but-set-variable -Wno-unused-variable -Wno-maybe-uninitialized -Wno-class-memaccess -Wno-misleading-indentation
WRAP   := -Wl,--wrap=GOMP_parallel,--wrap=omp_get_thread_num,--wrap=omp_get_num_threads,--wrap=omp_get_num_procs,--wrap=omp_get_max_threads,--wrap=GOMP_barrier,--wrap=GOMP_critical_start,--wrap=GOMP_critical_end,--wrap=GOMP_critical_name_start,--wrap=GOMP_critical_name_end,--wrap=GOMP_atomic_start,--wrap=GOMP_atomic_end,--wrap=GOMP_single_start
FLAGS_plain := -O2
FLAGS_asan  := -O1 -fsanitize=address -fno-omit-frame-pointer
FLAGS_tsan  := -O1 -fsanitize=thread

SIM_SRCS := sim/omp_shim.cpp sim/san_opts.cpp sim/mem_shim.cpp
A_SRCS := engines/buildsim_main.cpp $(sort $(wildcard engines/a_cfg_*.cpp))
B_SRCS := $(wildcard engines/histsim_main.cpp) $(sort $(wildcard engines/b_cfg_*.cpp))
C_SRCS := $(wildcard engines/filesim_main.cpp) $(sort $(wildcard engines/c_cfg_*.cpp))
D_SRCS := $(wildcard engines/readsim_main.cpp) $(sort $(wildcard engines/d_cfg_*.cpp))

ENGINES ?= buildsim $(if $(strip $(B_SRCS)),histsim) $(if $(strip $(C_SRCS)),filesim) $(if $(strip $(D_SRCS)),readsim)

define FLAVOUR_RULES
$(BUILD)/$(1)/%.o: %.cpp
	@mkdir -p $$(dir $$@)
	$(CXX) $(COMMON) $$(FLAGS_$(1)) -c $$< -o $$@
# the scheduler is never instrumented
$(BUILD)/$(1)/sim/sched.o: sim/sched.c sim/sched.h
	@mkdir -p $$(dir $$@)
	$(CC) -O2 -g1 -c $$< -o $$@
# the C interface is compiled from the repository into the engines that use it
$(BUILD)/$(1)/cpgm.o: $(REPO)/c-interface/cpgm.cpp
	@mkdir -p $$(dir $$@)
	$(CXX) $(COMMON) $$(FLAGS_$(1)) -c $$< -o $$@
$(BUILD)/$(1)/buildsim: $(patsubst %.cpp,$(BUILD)/$(1)/%.o,$(A_SRCS) $(SIM_SRCS)) $(BUILD)/$(1)/sim/sched.o $(BUILD)/$(1)/cpgm.o
	$(CXX) $$(FLAGS_$(1)) -fopenmp $$^ $(WRAP) -lpthread -o $$@
$(BUILD)/$(1)/histsim: $(patsubst %.cpp,$(BUILD)/$(1)/%.o,$(B_SRCS) $(SIM_SRCS)) $(BUILD)/$(1)/sim/sched.o $(BUILD)/$(1)/cpgm.o
	$(CXX) $$(FLAGS_$(1)) -fopenmp $$^ $(WRAP) -lpthread -o $$@
$(BUILD)/$(1)/filesim: $(patsubst %.cpp,$(BUILD)/$(1)/%.o,$(C_SRCS) $(SIM_SRCS) sim/io_shim.cpp) $(BUILD)/$(1)/sim/sched.o
	$(CXX) $$(FLAGS_$(1)) -fopenmp $$^ $(WRAP) -lpthread -ldl -o $$@
$(BUILD)/$(1)/readsim: $(patsubst %.cpp,$(BUILD)/$(1)/%.o,$(D_SRCS) $(SIM_SRCS)) $(BUILD)/$(1)/sim/sched.o
	$(CXX) $$(FLAGS_$(1)) -fopenmp $$^ $(WRAP) -lpthread -o $$@
all-$(1): $(foreach e,$(ENGINES),$(BUILD)/$(1)/$(e))
endef
$(foreach f,$(FLAVOURS),$(eval $(call FLAVOUR_RULES,$(f))))

all: $(foreach f,$(FLAVOURS),all-$(f))

clean:
	rm -rf $(BUILD)

.PHONY: all clean $(foreach f,$(FLAVOURS),all-$(f))
-include $(shell find $(BUILD) -name '*.d' 2>/dev/null)
