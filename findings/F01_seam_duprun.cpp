#include "pgm/pgm_index.hpp"
#include <cstdio>
#include <vector>
#include <algorithm>
int main() {
    size_t n = 40000; std::vector<uint32_t> d(n);
    for (size_t i = 0; i < n; ++i) {
        if (i < 9990) d[i] = 2 * i;
        else if (i < 10100) d[i] = 2 * 9990;          // duplicate run straddling the seam at 10000 (4 chunks)
        else d[i] = 2 * 9990 + 1000 + 2 * (i - 10100);
    }
    pgm::PGMIndex<uint32_t, 4, 2> idx(d);
    uint32_t q = 2 * 9990 + 1;
    auto r = idx.search(q);
    size_t g = std::lower_bound(d.begin(), d.end(), q) - d.begin();
    size_t l = std::lower_bound(d.begin() + r.lo, d.begin() + r.hi, q) - d.begin();
    printf("threads=%d q=%u pos=%zu lo=%zu hi=%zu restricted=%zu global=%zu %s\n", omp_get_max_threads(), q, r.pos, r.lo, r.hi, l, g, l == g ? "OK" : "WRONG");
}
