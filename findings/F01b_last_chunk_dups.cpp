// F01b: the last chunk consists only of duplicates of the previous chunk's last key: the closing point (last+1 -> n) is lost
#include "pgm/pgm_index.hpp"
#include <cstdio>
#include <vector>
#include <algorithm>
int main() {
    size_t n = 40000; std::vector<uint32_t> d(n);
    for (size_t i = 0; i < n; ++i) d[i] = i < 29990 ? 2 * i : 2 * 29990;
    pgm::PGMIndex<uint32_t, 4, 2> idx(d);
    uint32_t q = 2 * 29990 + 1;
    auto r = idx.search(q);
    size_t g = std::lower_bound(d.begin(), d.end(), q) - d.begin();
    size_t l = std::lower_bound(d.begin() + r.lo, d.begin() + r.hi, q) - d.begin();
    printf("threads=%d q=%u pos=%zu lo=%zu hi=%zu restricted=%zu global=%zu %s\n", omp_get_max_threads(), q, r.pos, r.lo, r.hi, l, g, l == g ? "OK" : "WRONG");
}
