// Sanitizer defaults: classify sanitizer hits through the exit code (ASan 77, TSan 66); no leak checking
// (map_file leaks a descriptor by design of the library; leaks are outside every given property).
extern "C" {
#if defined(__SANITIZE_ADDRESS__)
__attribute__((used, visibility("default"))) const char *__asan_default_options() {
    return "exitcode=77:detect_leaks=0:abort_on_error=0:allocator_may_return_null=1:detect_stack_use_after_return=0";
}
#endif
#if defined(__SANITIZE_THREAD__)
__attribute__((used, visibility("default"))) const char *__tsan_default_options() {
    return "halt_on_error=1:exitcode=66:report_signal_unsafe=0:history_size=4";
}
#endif
}
