// The worker main shared by all engines.  An engine provides
//
//   struct Engine {
//       static constexpr const char *name;
//       void configure(const Options &);                       // once
//       PlanText generate(uint64_t run_seed, uint64_t run_index, Stats &);   // plan from seed
//       Outcome execute(const PlanText &, Stats &);            // run a plan under the simulator, apply the oracles
//   };
//
// Protocol on stdout (one line each, flushed):  B <run> <run-seed>   before a run
//                                               E <run> <trace-hash> ok|fail <clause>   after it
//                                               F <run> <plan-path> <clause> | <detail>  a failing plan was written
//                                               S <json>   statistics at exit
//                                               R <trace-hash> ok|fail <clause> preds=<..> | <detail>   (replay mode)
#pragma once
#include <vector>
#include "core.hpp"
#include "env.hpp"
#include <chrono>
#include <csignal>
#include <string>
#include <unistd.h>
#include <sys/resource.h>

namespace sim {

struct Options {
    std::string prop = "C01";
    std::string tier = "quick";
    std::string profile;           ///< optional engine-specific profile (e.g. "boundary" for C17)
    uint64_t seed = 1;
    unsigned worker = 0, nworkers = 1;
    double budget_s = 10;
    uint64_t max_runs = UINT64_MAX;
    uint64_t start_run = 0;
    std::string replay;            ///< replay this plan file and exit
    std::vector<std::string> preludes; ///< plans executed (results ignored) in the same process before the replayed one: a history of runs
    int64_t dump_plan = -1;        ///< write the plan of this run index to --out and exit
    std::string out;
    std::string outdir = "/verif/replays";
    unsigned max_fail = 6;
    unsigned watchdog_s = 60;
    bool thorough() const { return tier == "thorough"; }
};

inline Options parse_options(int argc, char **argv) {
    Options o;
    if (const char *s = std::getenv("VERIF_SEED")) o.seed = std::strtoull(s, nullptr, 0);
    for (int i = 1; i < argc; ++i) {
        std::string a = argv[i];
        auto val = [&]() -> std::string { if (i + 1 >= argc) { std::fprintf(stderr, "missing value for %s\n", a.c_str()); std::exit(2); } return argv[++i]; };
        if (a == "--prop") o.prop = val();
        else if (a == "--tier") o.tier = val();
        else if (a == "--profile") o.profile = val();
        else if (a == "--seed") o.seed = std::strtoull(val().c_str(), nullptr, 0);
        else if (a == "--worker") o.worker = (unsigned) std::atoi(val().c_str());
        else if (a == "--nworkers") o.nworkers = (unsigned) std::atoi(val().c_str());
        else if (a == "--budget-s") o.budget_s = std::atof(val().c_str());
        else if (a == "--max-runs") o.max_runs = std::strtoull(val().c_str(), nullptr, 0);
        else if (a == "--start-run") o.start_run = std::strtoull(val().c_str(), nullptr, 0);
        else if (a == "--replay") o.replay = val();
        else if (a == "--prelude") o.preludes.push_back(val());
        else if (a == "--dump-plan") o.dump_plan = std::atoll(val().c_str());
        else if (a == "--out") o.out = val();
        else if (a == "--outdir") o.outdir = val();
        else if (a == "--max-fail") o.max_fail = (unsigned) std::atoi(val().c_str());
        else if (a == "--watchdog-s") o.watchdog_s = (unsigned) std::atoi(val().c_str());
        else { std::fprintf(stderr, "unknown option %s\n", a.c_str()); std::exit(2); }
    }
    return o;
}

inline void print_stats(const Stats &st, const Options &o, const char *engine, double wall) {
    std::string js = "{";
    js += "\"engine\":\"" + std::string(engine) + "\",\"worker\":" + std::to_string(o.worker) + ",\"wall_s\":" + std::to_string(wall);
    js += ",\"counters\":{";
    bool first = true;
    for (auto &c : st.counters) { if (!first) js += ","; first = false; js += "\"" + json_escape(c.first) + "\":" + std::to_string(c.second); }
    js += "},\"distinct\":{";
    first = true;
    for (auto &d : st.distinct) {
        if (!first) js += ","; first = false;
        js += "\"" + json_escape(d.first) + "\":[";
        bool f2 = true; size_t k = 0;
        for (auto h : d.second) { if (++k > 200000) break; if (!f2) js += ","; f2 = false; js += std::to_string(h); }
        js += "]";
    }
    js += "},\"samples\":[";
    first = true;
    for (auto &s : st.samples) { if (!first) js += ","; first = false; js += "\"" + json_escape(s) + "\""; }
    js += "]}";
    std::printf("S %s\n", js.c_str());
    std::fflush(stdout);
}

inline void watchdog_handler(int) {
    static const char msg[] = "X hang watchdog\n";
    ssize_t r = write(1, msg, sizeof msg - 1); (void) r;
    _exit(71);
}

template<typename Engine>
int sim_main(int argc, char **argv) {
    Options o = parse_options(argc, argv);
    std::setvbuf(stdout, nullptr, _IOLBF, 0);
    std::signal(SIGALRM, watchdog_handler);
    // map_file leaks one descriptor per MappedPGMIndex (no property covers that): keep the limit far away.
    struct rlimit rl;
    if (getrlimit(RLIMIT_NOFILE, &rl) == 0) { rl.rlim_cur = rl.rlim_max; setrlimit(RLIMIT_NOFILE, &rl); }
    install_hooks();

    Engine eng;
    Stats st;
    eng.configure(o);

    if (!o.replay.empty()) {
        PlanText p;
        if (!p.load(o.replay)) { std::fprintf(stderr, "cannot read %s\n", o.replay.c_str()); return 2; }
        if (p.has("prop")) o.prop = p.get("prop");
        eng.configure(o);
        for (auto &pre : o.preludes) {
            // earlier runs of the same worker process: whatever they leave behind in the process (statics, thread-local
            // state of the library, allocator state) is part of the replayed execution
            PlanText q;
            if (!q.load(pre)) { std::fprintf(stderr, "cannot read %s\n", pre.c_str()); return 2; }
            Stats ignored;
            alarm(o.watchdog_s);
            (void) eng.execute(q, ignored);
            alarm(0);
        }
        alarm(o.watchdog_s);
        Outcome out = eng.execute(p, st);
        alarm(0);
        std::printf("R %016" PRIx64 " %s %s preds=%s focus=%s | %s\n", out.trace_hash, out.ok ? "ok" : "fail",
                    out.ok ? "-" : out.clause.c_str(), out.preds.empty() ? "-" : out.preds.c_str(),
                    out.focus.empty() ? "-" : out.focus.c_str(), out.detail.c_str());
        return out.ok ? 0 : 1;
    }

    uint64_t prop_seed = mix(o.seed, hash_str(o.prop.c_str()) ^ hash_str(o.profile.c_str()));

    if (o.dump_plan >= 0) {
        uint64_t run_seed = mix(prop_seed, (uint64_t) o.dump_plan);
        PlanText p = eng.generate(run_seed, (uint64_t) o.dump_plan, st);
        return p.save(o.out) ? 0 : 2;
    }

    auto t0 = std::chrono::steady_clock::now(); // only to stop the loop; never influences a run
    auto elapsed = [&] { return std::chrono::duration<double>(std::chrono::steady_clock::now() - t0).count(); };
    unsigned nfail = 0;
    uint64_t nruns = 0;
    std::map<std::string, unsigned> per_clause;
    for (uint64_t run = o.start_run + o.worker; nruns < o.max_runs; run += o.nworkers) {
        if (elapsed() > o.budget_s) break;
        uint64_t run_seed = mix(prop_seed, run);
        std::printf("B %" PRIu64 " %016" PRIx64 "\n", run, run_seed);
        PlanText p = eng.generate(run_seed, run, st);
        alarm(o.watchdog_s);
        Outcome out = eng.execute(p, st);
        alarm(0);
        ++nruns;
        st.inc("runs");
        st.mark("trace", out.trace_hash);
        std::printf("E %" PRIu64 " %016" PRIx64 " %s %s\n", run, out.trace_hash, out.ok ? "ok" : "fail",
                    out.ok ? "-" : out.clause.c_str());
        if (!out.ok) {
            st.inc("failures");
            if (per_clause[out.clause]++ < 2) {
                std::string path = o.outdir + "/cand-" + o.prop + "-" + std::to_string(run) + ".plan.tmp";
                p.set("prop", o.prop);
                p.save(path);
                std::printf("F %" PRIu64 " %s %s | %s\n", run, path.c_str(), out.clause.c_str(), out.detail.c_str());
            }
            if (++nfail >= o.max_fail) break;
        }
    }
    print_stats(st, o, Engine::name, elapsed());
    return 0;
}

}
