// Seeded PRNG streams. One integer (VERIF_SEED) decides everything: run seed = mix(VERIF_SEED, property, run index);
// each run seed is split into independent named streams so that enabling one more fault kind never shifts the workload.
#pragma once
#include <cstdint>
#include <cstddef>
#include <vector>

namespace sim {

inline uint64_t splitmix64(uint64_t &s) {
    uint64_t z = (s += 0x9E3779B97F4A7C15ull);
    z = (z ^ (z >> 30)) * 0xBF58476D1CE4E5B9ull;
    z = (z ^ (z >> 27)) * 0x94D049BB133111EBull;
    return z ^ (z >> 31);
}

inline uint64_t mix(uint64_t a, uint64_t b) {
    uint64_t s = a ^ (b * 0xD6E8FEB86659FD93ull + 0x2545F4914F6CDD1Dull);
    splitmix64(s);
    return splitmix64(s);
}

inline uint64_t hash_str(const char *p) {
    uint64_t h = 0xcbf29ce484222325ull;
    for (; *p; ++p) h = (h ^ (unsigned char) *p) * 0x100000001b3ull;
    return h;
}

struct Rng {
    uint64_t s[4];
    explicit Rng(uint64_t seed = 1) { reseed(seed); }
    void reseed(uint64_t seed) { for (auto &x : s) x = splitmix64(seed); }
    static uint64_t rotl(uint64_t x, int k) { return (x << k) | (x >> (64 - k)); }
    uint64_t next() { // xoshiro256**
        uint64_t r = rotl(s[1] * 5, 7) * 9, t = s[1] << 17;
        s[2] ^= s[0]; s[3] ^= s[1]; s[1] ^= s[2]; s[0] ^= s[3]; s[2] ^= t; s[3] = rotl(s[3], 45);
        return r;
    }
    /// uniform in [0, n), n >= 1
    uint64_t below(uint64_t n) { return n <= 1 ? 0 : next() % n; }
    /// uniform in [lo, hi]
    uint64_t range(uint64_t lo, uint64_t hi) { return hi <= lo ? lo : lo + (hi - lo == UINT64_MAX ? next() : below(hi - lo + 1)); }
    bool chance(unsigned permille) { return below(1000) < permille; }
    bool coin() { return next() & 1; }
    template<typename T> const T &pick(const std::vector<T> &v) { return v[below(v.size())]; }
    template<typename T, size_t N> const T &pick(const T (&v)[N]) { return v[below(N)]; }
    /// 2^u with u uniform in [0, maxbits], then uniform below that: a heavy-tailed magnitude
    uint64_t magnitude(unsigned maxbits) {
        unsigned b = (unsigned) below(maxbits + 1);
        if (b == 0) return below(2);
        uint64_t hi = b >= 64 ? UINT64_MAX : ((uint64_t(1) << b) - 1);
        return range(hi / 2 + 1, hi);
    }
};

/// Named sub-stream of a run seed.
inline Rng stream(uint64_t run_seed, const char *name) { return Rng(mix(run_seed, hash_str(name))); }

}
