// E2: the libc file layer underneath MappedPGMIndex, interposed by defining the functions in the executable
// (DESIGN.md 3.4).  Only calls on files inside the run's scratch directory are touched; everything else passes through.
// Bytes stay in real files so that mmap is real.  The shim injects faults attached to the current container operation
// (by I/O call index within the operation) and monitors write-class calls per path.
#include "io_shim.hpp"
#include <cerrno>
#include <cstdarg>
#include <cstdio>
#include <cstring>
#include <dlfcn.h>
#include <fcntl.h>
#include <map>
#include <string>
#include <sys/mman.h>
#include <sys/stat.h>
#include <sys/syscall.h>
#include <sys/uio.h>
#include <unistd.h>
#include <vector>

namespace sim {
IoState g_io;

static std::map<int, std::string> &fd_paths() { static std::map<int, std::string> m; return m; }

static bool tracked_path(const char *path) {
    return g_io.active && !g_io.harness_io && path && !g_io.scratch.empty() && std::strncmp(path, g_io.scratch.c_str(), g_io.scratch.size()) == 0;
}
static const std::string *tracked_fd(int fd) {
    if (!g_io.active || g_io.harness_io) return nullptr;
    auto it = fd_paths().find(fd);
    return it == fd_paths().end() ? nullptr : &it->second;
}

/// Next fault for the current I/O call, if any.
static const IoFault *next_fault(const char *call) {
    size_t idx = g_io.call_index++;
    g_io.calls_by_kind[call]++;
    for (auto &f : g_io.faults)
        if (f.call_index == idx && !f.fired) return &f;
    return nullptr;
}
static void fire(const IoFault *f) {
    const_cast<IoFault *>(f)->fired = true;
    g_io.fired[f->kind]++;
}
static void note_write(const std::string &path, const char *what) {
    g_io.write_class[path].push_back(what);
}

void io_begin_run(const std::string &scratch) {
    g_io = IoState();
    g_io.scratch = scratch;
    g_io.active = true;
    fd_paths().clear();
}
void io_end_run() {
    // map_file() never closes its descriptor (one leaked fd per container; no property covers that): close what the
    // run left open so that the leak cannot turn into a spurious open() failure many runs later
    for (auto &kv : fd_paths()) syscall(SYS_close, kv.first);
    g_io.active = false;
    fd_paths().clear();
}
void io_begin_op(const std::vector<IoFault> &faults) {
    g_io.faults = faults;
    g_io.call_index = 0;
    g_io.write_class.clear();
}
size_t io_end_op() {
    size_t n = g_io.call_index;
    g_io.faults.clear();
    return n;
}
}

using namespace sim;

extern "C" {

typedef FILE *(*fopen_fn)(const char *, const char *);

static FILE *do_fopen(const char *name, const char *path, const char *mode) {
    static fopen_fn real_fopen = (fopen_fn) dlsym(RTLD_NEXT, "fopen");
    static fopen_fn real_fopen64 = (fopen_fn) dlsym(RTLD_NEXT, "fopen64");
    fopen_fn real = (std::strcmp(name, "fopen64") == 0 && real_fopen64) ? real_fopen64 : real_fopen;
    bool t = tracked_path(path);
    if (t) {
        g_io.call_index++; // an I/O call of the operation, but no gating fault kind applies to fopen (DESIGN.md 3.4)
        g_io.calls_by_kind["fopen"]++;
    }
    FILE *f = real(path, mode);
    if (t && f) {
        fd_paths()[fileno(f)] = path;
        if (std::strpbrk(mode, "wa+")) note_write(path, "fopen-for-writing");
    }
    return f;
}
FILE *fopen(const char *path, const char *mode) { return do_fopen("fopen", path, mode); }
FILE *fopen64(const char *path, const char *mode) { return do_fopen("fopen64", path, mode); }

static int do_open(const char *path, int flags, mode_t mode) {
    if (tracked_path(path)) {
        if (const IoFault *f = next_fault("open")) {
            if (f->kind == "open_fail") { fire(f); errno = f->param ? ENOMEM : EMFILE; return -1; }
        }
        int fd = (int) syscall(SYS_openat, AT_FDCWD, path, flags, mode);
        if (fd >= 0) {
            fd_paths()[fd] = path;
            if ((flags & O_ACCMODE) != O_RDONLY || (flags & (O_TRUNC | O_CREAT))) note_write(path, "open-for-writing");
        }
        return fd;
    }
    return (int) syscall(SYS_openat, AT_FDCWD, path, flags, mode);
}
int open(const char *path, int flags, ...) {
    mode_t mode = 0;
    if (flags & (O_CREAT | O_TMPFILE)) { va_list ap; va_start(ap, flags); mode = va_arg(ap, mode_t); va_end(ap); }
    return do_open(path, flags, mode);
}
int open64(const char *path, int flags, ...) {
    mode_t mode = 0;
    if (flags & (O_CREAT | O_TMPFILE)) { va_list ap; va_start(ap, flags); mode = va_arg(ap, mode_t); va_end(ap); }
    return do_open(path, flags | O_LARGEFILE, mode);
}

int close(int fd) {
    if (g_io.active) fd_paths().erase(fd);
    return (int) syscall(SYS_close, fd);
}

ssize_t read(int fd, void *buf, size_t n) {
    if (tracked_fd(fd)) {
        if (const IoFault *f = next_fault("read")) {
            if (f->kind == "eintr") { fire(f); errno = EINTR; return -1; }
            if (f->kind == "short_io" && n > 1) { fire(f); n = 1 + f->param % (n - 1); }
        }
    }
    return syscall(SYS_read, fd, buf, n);
}

ssize_t write(int fd, const void *buf, size_t n) {
    if (const std::string *p = tracked_fd(fd)) {
        note_write(*p, "write");
        if (const IoFault *f = next_fault("write")) {
            if (f->kind == "eintr") { fire(f); errno = EINTR; return -1; }
            if (f->kind == "short_io" && n > 1) { fire(f); n = 1 + f->param % (n - 1); }
            if (f->kind == "write_error") { fire(f); errno = f->param ? EIO : ENOSPC; return -1; } // exploration only, never gated
        }
    }
    return syscall(SYS_write, fd, buf, n);
}

ssize_t writev(int fd, const struct iovec *iov, int cnt) {
    if (const std::string *p = tracked_fd(fd)) {
        note_write(*p, "writev");
        if (const IoFault *f = next_fault("writev")) {
            if (f->kind == "eintr") { fire(f); errno = EINTR; return -1; }
            if (f->kind == "short_io" && cnt > 0) {
                // only a prefix of the total: possibly ending inside the first iovec
                size_t total = 0;
                for (int i = 0; i < cnt; ++i) total += iov[i].iov_len;
                if (total > 1) {
                    fire(f);
                    size_t want = 1 + f->param % (total - 1);
                    std::vector<struct iovec> v;
                    for (int i = 0; i < cnt && want > 0; ++i) {
                        struct iovec e = iov[i];
                        if (e.iov_len > want) e.iov_len = want;
                        want -= e.iov_len;
                        v.push_back(e);
                    }
                    return syscall(SYS_writev, fd, v.data(), (int) v.size());
                }
            }
            if (f->kind == "write_error") { fire(f); errno = f->param ? EIO : ENOSPC; return -1; }
        }
    }
    return syscall(SYS_writev, fd, iov, cnt);
}

ssize_t pread(int fd, void *buf, size_t n, off_t off) {
    if (tracked_fd(fd)) {
        if (const IoFault *f = next_fault("pread")) {
            if (f->kind == "eintr") { fire(f); errno = EINTR; return -1; }
            if (f->kind == "short_io" && n > 1) { fire(f); n = 1 + f->param % (n - 1); }
        }
    }
    return syscall(SYS_pread64, fd, buf, n, off);
}
ssize_t pread64(int fd, void *buf, size_t n, off_t off) { return pread(fd, buf, n, off); }

ssize_t pwrite(int fd, const void *buf, size_t n, off_t off) {
    if (const std::string *p = tracked_fd(fd)) {
        note_write(*p, "pwrite");
        if (const IoFault *f = next_fault("pwrite")) {
            if (f->kind == "eintr") { fire(f); errno = EINTR; return -1; }
            if (f->kind == "short_io" && n > 1) { fire(f); n = 1 + f->param % (n - 1); }
            if (f->kind == "write_error") { fire(f); errno = f->param ? EIO : ENOSPC; return -1; }
        }
    }
    return syscall(SYS_pwrite64, fd, buf, n, off);
}
ssize_t pwrite64(int fd, const void *buf, size_t n, off_t off) { return pwrite(fd, buf, n, off); }

ssize_t readv(int fd, const struct iovec *iov, int cnt) {
    if (tracked_fd(fd)) {
        if (const IoFault *f = next_fault("readv")) {
            if (f->kind == "eintr") { fire(f); errno = EINTR; return -1; }
            if (f->kind == "short_io" && cnt > 0 && iov[0].iov_len > 1) { fire(f); struct iovec e = iov[0]; e.iov_len = 1 + f->param % (e.iov_len - 1); return syscall(SYS_readv, fd, &e, 1); }
        }
    }
    return syscall(SYS_readv, fd, iov, cnt);
}

// Mappings of scratch files get a PROT_NONE guard page behind them, so that a read past the (page-rounded) end of the
// mapped file faults instead of silently reading whatever happens to be mapped next (C17: "... or the mapped file").
static std::map<void *, size_t> &guarded() { static std::map<void *, size_t> m; return m; }          // mapping -> reserved bytes (incl. guard)

void *mmap(void *addr, size_t len, int prot, int flags, int fd, off_t off) {
    if (fd >= 0) {
        if (const std::string *p = tracked_fd(fd)) {
            if (prot & PROT_WRITE) note_write(*p, "mmap-writable");
            if (const IoFault *f = next_fault("mmap")) {
                if (f->kind == "mmap_fail") { fire(f); errno = ENOMEM; return MAP_FAILED; }
            }
            if (addr == nullptr && len > 0) {
                size_t rounded = (len + 4095) & ~size_t(4095);
                void *res = (void *) syscall(SYS_mmap, nullptr, rounded + 4096, PROT_NONE, MAP_PRIVATE | MAP_ANONYMOUS, -1, 0);
                if (res != MAP_FAILED) {
                    void *m = (void *) syscall(SYS_mmap, res, len, prot, flags | MAP_FIXED, fd, off);
                    if (m == MAP_FAILED) { int e = errno; syscall(SYS_munmap, res, rounded + 4096); errno = e; return MAP_FAILED; }
                    guarded()[m] = rounded + 4096;
                    g_io.calls_by_kind["mmap-guarded"]++;
                    return m;
                }
            }
        }
    }
    return (void *) syscall(SYS_mmap, addr, len, prot, flags, fd, off);
}

int munmap(void *addr, size_t len) {
    auto it = guarded().find(addr);
    if (it != guarded().end()) {
        size_t total = it->second, mapped = total - 4096;
        if (((len + 4095) & ~size_t(4095)) > mapped) {
            // unmapping more than was mapped removes whatever lies behind the mapping (in production: a neighbouring
            // mapping, e.g. another container's file): an access outside the mapped file in the sense of C17
            char msg[200];
            int n = std::snprintf(msg, sizeof msg, "X munmap of %zu bytes on a file mapping of %zu bytes (page-rounded %zu): reaches beyond the mapping\n", len, mapped, mapped);
            ssize_t r = syscall(SYS_write, 1, msg, (size_t) n); (void) r;
            r = syscall(SYS_write, 2, msg, (size_t) n); (void) r;
            _exit(77);
        }
        guarded().erase(it);
        return (int) syscall(SYS_munmap, addr, total);
    }
    return (int) syscall(SYS_munmap, addr, len);
}
void *mmap64(void *addr, size_t len, int prot, int flags, int fd, off_t off) { return mmap(addr, len, prot, flags, fd, off); }

int ftruncate(int fd, off_t len) {
    if (const std::string *p = tracked_fd(fd)) note_write(*p, "ftruncate");
    return (int) syscall(SYS_ftruncate, fd, len);
}

int unlink(const char *path) {
    if (tracked_path(path)) note_write(path, "unlink");
    return (int) syscall(SYS_unlinkat, AT_FDCWD, path, 0);
}

}
