// The simulated construction environment (E1) and the per-thread hook state shared by the shims and the engines.
#pragma once
#include <cstdint>
#include <cstddef>
#include <vector>

namespace sim {

struct PointRec { long double x; size_t y; };

/// What the simulator decides about the machine and the OpenMP runtime for one run.
struct Env {
    bool active = false;      ///< false: wrapped functions behave like a 1-proc machine outside a run
    int procs = 1;            ///< omp_get_num_procs()
    int max_threads = 1;      ///< omp_get_max_threads()
    /// granted team size per parallel region, in call order; 0 or missing = as requested.
    std::vector<int> grants;
    unsigned yield_every = 1; ///< yield at every k-th add_point inside a team worker
    unsigned preempt_permille = 0;
    uint64_t sched_seed = 1;
    bool shuffle_start = true; ///< randomise which worker starts first

    int parallelism() const { int p = procs < max_threads ? procs : max_threads; return p < 20 ? p : 20; }
};

/// Counters of what actually fired in the current run.
struct EnvStats {
    uint64_t regions = 0;          ///< parallel regions executed
    uint64_t team_shrink = 0;      ///< regions whose granted team was smaller than requested
    uint64_t workers = 0;          ///< worker tasks created
    uint64_t max_team = 0;         ///< largest granted team
    uint64_t max_requested = 0;    ///< largest requested team
    uint64_t worker_exceptions = 0;
    void reset() { *this = EnvStats(); }
};

extern Env g_env;
extern EnvStats g_env_stats;

/// Per-thread recorder for hook H1. When `rec` is non-null every add_point is appended to it.
struct ThreadCtx {
    std::vector<PointRec> *rec = nullptr;
    int team_tid = -1;   ///< omp thread number inside a simulated team, -1 outside
    int team_size = 1;
    int team_id = 0;     ///< identifies the parallel region (barriers, single)
    unsigned single_seen = 0; ///< `single` constructs this thread has encountered in the region
    unsigned yield_ctr = 0;
    bool yield_in_query = false;  ///< reader tasks (engine D): hook H2 is a yield point
};

/// One record of hook H2 (PGMIndex::segment_for_key, once per level).
struct LevelRec { int level; size_t predicted, scan_start, chosen, window_end; };
extern thread_local std::vector<LevelRec> *t_level_rec;
extern thread_local ThreadCtx t_ctx;

/// Recorders for the workers of the most recent parallel region(s): region index, thread number, points.
struct WorkerRecord { int region; int tid; int team; std::vector<PointRec> points; };
extern std::vector<WorkerRecord> g_worker_records;
extern bool g_record_points; ///< engines set this to have H1 points recorded (main thread and workers)
extern std::vector<PointRec> g_main_points;

void install_hooks();                 ///< set pgm::verif hooks (once per process)
void begin_run(const Env &env);       ///< reset scheduler, stats and recorders for a new run
void end_run();                       ///< deactivate

}
