// E1: the OpenMP runtime underneath the constructors, replaced by the simulator (DESIGN.md 3.3).
// Linked with -Wl,--wrap=GOMP_parallel,--wrap=omp_get_thread_num,--wrap=omp_get_num_threads,
//             --wrap=omp_get_num_procs,--wrap=omp_get_max_threads
#include "env.hpp"
#include "sched.h"
#include <pthread.h>
#include <cstdint>
#include <cstdio>
#include <cstdlib>
#include <exception>
#include <stdexcept>
#include <typeinfo>

namespace sim {
Env g_env;
EnvStats g_env_stats;
thread_local ThreadCtx t_ctx;
std::vector<WorkerRecord> g_worker_records;
bool g_record_points = false;
std::vector<PointRec> g_main_points;
thread_local std::vector<LevelRec> *t_level_rec = nullptr;
}

using namespace sim;

namespace {
struct WorkerArg {
    void (*fn)(void *);
    void *data;
    int task_id;
    int tid;
    int team;
    int team_id;
    WorkerRecord *rec;
};

#if defined(__SANITIZE_THREAD__)
extern "C" void __tsan_acquire(void *addr);
extern "C" void __tsan_release(void *addr);
#define SIM_TSAN_ACQUIRE(p) __tsan_acquire(p)
#define SIM_TSAN_RELEASE(p) __tsan_release(p)
#else
#define SIM_TSAN_ACQUIRE(p) ((void) 0)
#define SIM_TSAN_RELEASE(p) ((void) 0)
#endif

// Synchronisation objects whose only purpose is to carry the happens-before edges real OpenMP provides at barriers and
// critical sections (ThreadSanitizer flavour); the blocking itself is done by the uninstrumented scheduler.
char g_barrier_sync[256];
char g_lock_sync[64];
unsigned g_single_claimed[256];

void *worker_main(void *p) {
    auto *a = static_cast<WorkerArg *>(p);
    sim_task_begin(a->task_id);
    t_ctx.team_tid = a->tid;
    t_ctx.team_size = a->team;
    t_ctx.team_id = a->team_id;
    t_ctx.single_seen = 0;
    t_ctx.yield_ctr = 0;
    t_ctx.rec = a->rec ? &a->rec->points : nullptr;
    try {
        a->fn(a->data);
    } catch (const std::exception &e) {
        // An exception escaping an OpenMP parallel region is std::terminate in production; reproduce that.
        std::fprintf(stdout, "X worker-exception %s\n", e.what());
        std::fflush(stdout);
        ++g_env_stats.worker_exceptions;
        std::_Exit(70);
    } catch (...) {
        std::fprintf(stdout, "X worker-exception unknown\n");
        std::fflush(stdout);
        std::_Exit(70);
    }
    t_ctx.team_tid = -1;
    t_ctx.rec = nullptr;
    sim_task_end(a->task_id);
    return nullptr;
}
}

extern "C" {

int __real_omp_get_num_procs(void);
int __real_omp_get_max_threads(void);
int __real_omp_get_thread_num(void);
int __real_omp_get_num_threads(void);
void __real_GOMP_parallel(void (*fn)(void *), void *data, unsigned num_threads, unsigned flags);

int __wrap_omp_get_num_procs(void) { return g_env.active ? g_env.procs : 1; }
int __wrap_omp_get_max_threads(void) { return g_env.active ? g_env.max_threads : 1; }
int __wrap_omp_get_thread_num(void) { return t_ctx.team_tid >= 0 ? t_ctx.team_tid : 0; }
int __wrap_omp_get_num_threads(void) { return t_ctx.team_tid >= 0 ? t_ctx.team_size : 1; }

void __wrap_GOMP_parallel(void (*fn)(void *), void *data, unsigned num_threads, unsigned /*flags*/) {
    // num_threads == 0 means "runtime default" = max_threads
    unsigned requested = num_threads ? num_threads : (unsigned) (g_env.active ? g_env.max_threads : 1);
    if (requested < 1) requested = 1;
    if (requested > SIM_MAX_TASKS - 2) requested = SIM_MAX_TASKS - 2;
    unsigned granted = requested;
    size_t region = g_env_stats.regions++;
    if (g_env.active && region < g_env.grants.size() && g_env.grants[region] > 0 &&
        (unsigned) g_env.grants[region] < requested)
        granted = (unsigned) g_env.grants[region];
    if (granted < requested) ++g_env_stats.team_shrink;
    if (granted > g_env_stats.max_team) g_env_stats.max_team = granted;
    if (requested > g_env_stats.max_requested) g_env_stats.max_requested = requested;

    if (!g_env.active || sim_self() < 0 || t_ctx.team_tid >= 0) {
        // Outside a simulated run (or nested): run the body serially as a team of one.
        int saved_tid = t_ctx.team_tid, saved_team = t_ctx.team_size;
        t_ctx.team_tid = 0; t_ctx.team_size = 1;
        fn(data);
        t_ctx.team_tid = saved_tid; t_ctx.team_size = saved_team;
        return;
    }

    __atomic_store_n(&g_single_claimed[region % 256], 0u, __ATOMIC_RELEASE);
    // Workers are created per region (never pooled) so that the fork/join edges of OpenMP exist for ThreadSanitizer.
    std::vector<WorkerArg> args(granted);
    std::vector<pthread_t> th(granted);
    std::vector<int> ids(granted);
    size_t rec_base = g_worker_records.size();
    if (g_record_points) {
        g_worker_records.resize(rec_base + granted);
        for (unsigned t = 0; t < granted; ++t) {
            g_worker_records[rec_base + t].region = (int) region;
            g_worker_records[rec_base + t].tid = (int) t;
            g_worker_records[rec_base + t].team = (int) granted;
        }
    }
    pthread_attr_t attr;
    pthread_attr_init(&attr);
    pthread_attr_setstacksize(&attr, 1 << 20);
    for (unsigned t = 0; t < granted; ++t) {
        ids[t] = sim_task_register();
        args[t] = WorkerArg{fn, data, ids[t], (int) t, (int) granted, (int) (region % 256),
                            g_record_points ? &g_worker_records[rec_base + t] : nullptr};
        if (pthread_create(&th[t], &attr, worker_main, &args[t]) != 0) {
            std::fprintf(stderr, "omp_shim: pthread_create failed\n");
            std::abort();
        }
        g_env_stats.workers++;
    }
    pthread_attr_destroy(&attr);
    sim_wait_tasks(ids.data(), (int) granted); // the implicit barrier at the end of the region
    for (unsigned t = 0; t < granted; ++t) {
        pthread_join(th[t], nullptr);
        sim_task_release(ids[t]);
    }
}

// Other OpenMP constructs a parallel region may use. The library itself only needs GOMP_parallel; these keep the
// simulation faithful (and free of spurious hangs or race reports) for changed code that uses them.
void __wrap_GOMP_barrier(void) {
    if (t_ctx.team_tid < 0) return; // orphaned barrier outside a simulated team
    SIM_TSAN_RELEASE(&g_barrier_sync[t_ctx.team_id]);
    sim_barrier(t_ctx.team_id, t_ctx.team_size);
    SIM_TSAN_ACQUIRE(&g_barrier_sync[t_ctx.team_id]);
}
void __wrap_GOMP_critical_start(void) { sim_lock(0); SIM_TSAN_ACQUIRE(&g_lock_sync[0]); }
void __wrap_GOMP_critical_end(void) { SIM_TSAN_RELEASE(&g_lock_sync[0]); sim_unlock(0); }
void __wrap_GOMP_critical_name_start(void **pptr) { int id = 2 + (int) (((uintptr_t) pptr >> 3) % 60); sim_lock(id); SIM_TSAN_ACQUIRE(&g_lock_sync[id]); }
void __wrap_GOMP_critical_name_end(void **pptr) { int id = 2 + (int) (((uintptr_t) pptr >> 3) % 60); SIM_TSAN_RELEASE(&g_lock_sync[id]); sim_unlock(id); }
void __wrap_GOMP_atomic_start(void) { sim_lock(1); SIM_TSAN_ACQUIRE(&g_lock_sync[1]); }
void __wrap_GOMP_atomic_end(void) { SIM_TSAN_RELEASE(&g_lock_sync[1]); sim_unlock(1); }
bool __wrap_GOMP_single_start(void) {
    if (t_ctx.team_tid < 0) return true;
    // the k-th `single` of the region is executed by the first thread that reaches its k-th encounter
    unsigned mine = t_ctx.single_seen++;
    // (atomics: the real runtime claims a `single` with an atomic operation, which is synchronisation, not a race)
    unsigned expected = mine;
    return __atomic_compare_exchange_n(&g_single_claimed[t_ctx.team_id], &expected, mine + 1, false, __ATOMIC_ACQ_REL, __ATOMIC_ACQUIRE);
}

}

// ---- hooks (H1 yield point + recorder) ---------------------------------------------------------------------------
#include "pgm/verif_hooks.hpp"

namespace sim {

static void on_add_point(long double x, size_t y) {
    ThreadCtx &c = t_ctx;
    if (c.rec) c.rec->push_back(PointRec{x, y});
    else if (g_record_points && c.team_tid < 0 && sim_self() == 0) g_main_points.push_back(PointRec{x, y});
    if (c.team_tid >= 0) {
        if (++c.yield_ctr >= g_env.yield_every) {
            c.yield_ctr = 0;
            sim_yield();
        }
    }
}

static void on_level(int level, size_t predicted, size_t scan_start, size_t chosen, size_t window_end) {
    if (t_level_rec) t_level_rec->push_back(LevelRec{level, predicted, scan_start, chosen, window_end});
    if (t_ctx.yield_in_query) sim_yield();
}

void install_hooks() {
    ::pgm::verif::add_point_hook = &on_add_point;
    ::pgm::verif::level_hook = &on_level;
}

void begin_run(const Env &env) {
    g_env = env;
    g_env.active = true;
    g_env_stats.reset();
    g_worker_records.clear();
    g_main_points.clear();
    t_ctx = ThreadCtx();
    sim_sched_reset(env.sched_seed, env.preempt_permille);
}

void end_run() {
    g_env.active = false;
}

}
