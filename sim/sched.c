/* See sched.h. Compile WITHOUT -fsanitize=*. */
#define _GNU_SOURCE
#include "sched.h"
#include <linux/futex.h>
#include <sys/syscall.h>
#include <unistd.h>
#include <stdlib.h>
#include <stdio.h>
#include <string.h>

enum { T_UNUSED = 0, T_RUNNABLE, T_BLOCKED, T_DONE, T_BARRIER };

struct task {
    int state;
    int futex;          /* 0 = must wait, 1 = has been handed the baton */
    int wait_ids[SIM_MAX_TASKS];
    int wait_n;
    int barrier_team;   /* team whose barrier the task is waiting at (state T_BARRIER) */
};

static struct task tasks[SIM_MAX_TASKS];
static int n_tasks;
static int current;                 /* holder of the baton */
static uint64_t rng_state;
static unsigned preempt_pm;
/* Hand-overs cost 10-50 us each; beyond this many in one run the scheduler stops preempting (deterministically: the
 * decision depends on the count only), so that a run with very many yield points cannot run into the watchdog. */
#define SIM_MAX_PREEMPTIONS 250000
static uint64_t st_yields, st_switches, st_hash, st_created;
static __thread int self_id = -1;
#define SIM_MAX_TEAMS 256
#define SIM_MAX_LOCKS 64
static int barrier_arrived[SIM_MAX_TEAMS];
static int lock_owner[SIM_MAX_LOCKS]; /* 0 = free, else task id + 1 */

static uint64_t next_u64(void) { /* splitmix64 */
    uint64_t z = (rng_state += 0x9E3779B97F4A7C15ull);
    z = (z ^ (z >> 30)) * 0xBF58476D1CE4E5B9ull;
    z = (z ^ (z >> 27)) * 0x94D049BB133111EBull;
    return z ^ (z >> 31);
}

static void futex_wait_on(int *addr) {
    while (__atomic_load_n(addr, __ATOMIC_ACQUIRE) == 0)
        syscall(SYS_futex, addr, FUTEX_WAIT_PRIVATE, 0, NULL, NULL, 0);
    __atomic_store_n(addr, 0, __ATOMIC_RELAXED);
}

static void futex_post(int *addr) {
    __atomic_store_n(addr, 1, __ATOMIC_RELEASE);
    syscall(SYS_futex, addr, FUTEX_WAKE_PRIVATE, 1, NULL, NULL, 0);
}

static void die(const char *msg) {
    fprintf(stderr, "sim_sched: %s\n", msg);
    abort();
}

void sim_sched_reset(uint64_t seed, unsigned preempt_permille) {
    memset(tasks, 0, sizeof(tasks));
    n_tasks = 1;
    tasks[0].state = T_RUNNABLE;
    current = 0;
    self_id = 0;
    rng_state = seed;
    preempt_pm = preempt_permille;
    st_yields = st_switches = st_created = 0;
    st_hash = 0xcbf29ce484222325ull;
    memset(barrier_arrived, 0, sizeof(barrier_arrived));
    memset(lock_owner, 0, sizeof(lock_owner));
}

int sim_self(void) { return self_id; }

int sim_task_register(void) {
    if (self_id != current) die("register without baton");
    int id = -1;
    for (int i = 1; i < n_tasks; ++i) if (tasks[i].state == T_UNUSED) { id = i; break; } /* lowest free slot: deterministic */
    if (id < 0) {
        if (n_tasks >= SIM_MAX_TASKS) die("too many live tasks");
        id = n_tasks++;
    }
    tasks[id].state = T_RUNNABLE;
    tasks[id].futex = 0;
    ++st_created;
    return id;
}

static void note_switch(int from, int to) {
    ++st_switches;
    st_hash = (st_hash ^ (uint64_t) (from * 64 + to)) * 0x100000001b3ull;
    st_hash = (st_hash ^ st_yields) * 0x100000001b3ull;
}

/* Pick a runnable task other than `except` (or any if except < 0); -1 if none. */
static int pick_runnable(int except) {
    int cand[SIM_MAX_TASKS], c = 0;
    for (int i = 0; i < n_tasks; ++i)
        if (i != except && tasks[i].state == T_RUNNABLE)
            cand[c++] = i;
    if (c == 0) return -1;
    if (c == 1) return cand[0];
    return cand[next_u64() % (uint64_t) c];
}

static void hand_over(int to, int wait_self) {
    int me = self_id;
    note_switch(me, to);
    current = to;
    futex_post(&tasks[to].futex);
    if (wait_self) {
        futex_wait_on(&tasks[me].futex);
        /* we hold the baton again */
    }
}

void sim_task_release(int id) {
    if (id > 0 && id < n_tasks && tasks[id].state == T_DONE) tasks[id].state = T_UNUSED;
}

void sim_task_begin(int id) {
    self_id = id;
    futex_wait_on(&tasks[id].futex);
}

static void unblock_ready(void) {
    for (int i = 0; i < n_tasks; ++i) {
        if (tasks[i].state != T_BLOCKED) continue;
        int all = 1;
        for (int k = 0; k < tasks[i].wait_n; ++k)
            if (tasks[tasks[i].wait_ids[k]].state != T_DONE) { all = 0; break; }
        if (all) tasks[i].state = T_RUNNABLE;
    }
}

void sim_task_end(int id) {
    if (self_id != id || current != id) die("task_end without baton");
    tasks[id].state = T_DONE;
    unblock_ready();
    int to = pick_runnable(id);
    if (to < 0) die("deadlock at task end");
    hand_over(to, 0);
    self_id = -1;
}

void sim_yield(void) {
    if (self_id < 0 || self_id != current) return; /* thread outside the simulation */
    ++st_yields;
    if (n_tasks == 1 || preempt_pm == 0 || st_switches >= SIM_MAX_PREEMPTIONS) return;
    int others = 0;
    for (int i = 0; i < n_tasks; ++i)
        if (i != self_id && tasks[i].state == T_RUNNABLE) { others = 1; break; }
    if (!others) return;
    if (next_u64() % 1000 >= preempt_pm) return;
    int to = pick_runnable(self_id);
    hand_over(to, 1);
}

void sim_yield_forced(void) {
    if (self_id < 0 || self_id != current) return;
    ++st_yields;
    int to = pick_runnable(self_id);
    if (to < 0) return;
    /* choose uniformly among all runnable including self */
    int cnt = 0;
    for (int i = 0; i < n_tasks; ++i) if (tasks[i].state == T_RUNNABLE) ++cnt;
    if (next_u64() % (uint64_t) cnt == 0) return;
    hand_over(to, 1);
}

void sim_wait_tasks(const int *ids, int n) {
    if (self_id != current) die("wait without baton");
    int me = self_id;
    for (;;) {
        int all = 1;
        for (int k = 0; k < n; ++k)
            if (tasks[ids[k]].state != T_DONE) { all = 0; break; }
        if (all) return;
        tasks[me].state = T_BLOCKED;
        tasks[me].wait_n = n;
        for (int k = 0; k < n; ++k) tasks[me].wait_ids[k] = ids[k];
        int to = pick_runnable(me);
        if (to < 0) die("deadlock in wait");
        hand_over(to, 1);
        /* woken: state was set to RUNNABLE by unblock_ready */
    }
}

void sim_barrier(int team_id, int team_size) {
    if (self_id < 0 || self_id != current) return;
    if (team_id < 0 || team_id >= SIM_MAX_TEAMS) die("barrier: bad team id");
    ++st_yields;
    int me = self_id;
    if (++barrier_arrived[team_id] >= team_size) {
        /* last to arrive: release the others, keep running */
        barrier_arrived[team_id] = 0;
        for (int i = 0; i < n_tasks; ++i)
            if (tasks[i].state == T_BARRIER && tasks[i].barrier_team == team_id) tasks[i].state = T_RUNNABLE;
        return;
    }
    tasks[me].state = T_BARRIER;
    tasks[me].barrier_team = team_id;
    int to = pick_runnable(me);
    if (to < 0) die("deadlock at barrier (a team member never arrives)");
    hand_over(to, 1);
}

void sim_lock(int lock_id) {
    if (self_id < 0 || self_id != current) return;
    if (lock_id < 0 || lock_id >= SIM_MAX_LOCKS) die("lock: bad id");
    while (lock_owner[lock_id] != 0 && lock_owner[lock_id] != self_id + 1) {
        ++st_yields;
        int to = pick_runnable(self_id);
        if (to < 0) die("deadlock at lock");
        hand_over(to, 1);
    }
    lock_owner[lock_id] = self_id + 1;
}

void sim_unlock(int lock_id) {
    if (self_id < 0 || self_id != current) return;
    if (lock_id >= 0 && lock_id < SIM_MAX_LOCKS && lock_owner[lock_id] == self_id + 1) lock_owner[lock_id] = 0;
}

uint64_t sim_stat_yield_points(void) { return st_yields; }
uint64_t sim_stat_switches(void) { return st_switches; }
uint64_t sim_stat_decision_hash(void) { return st_hash; }
uint64_t sim_stat_tasks_created(void) { return st_created; }
