// Common pieces of every engine: trace hash, outcome, statistics, the replay-file (plan) text format.
#pragma once
#include "rng.hpp"
#include <cinttypes>
#include <cmath>
#include <cstdint>
#include <cstdio>
#include <cstdlib>
#include <cstring>
#include <map>
#include <set>
#include <sstream>
#include <string>
#include <utility>
#include <vector>

namespace sim {

/// FNV-1a over the event records of a run: the identity of an execution. Never fed with addresses, thread ids, file
/// descriptors, paths or times.
struct Trace {
    uint64_t h = 0xcbf29ce484222325ull;
    uint64_t events = 0;
    void add(uint64_t v) {
        for (int i = 0; i < 8; ++i) { h = (h ^ (v & 0xff)) * 0x100000001b3ull; v >>= 8; }
        ++events;
    }
    void add_ld(long double v) {
        // hash the value, not its padding bytes
        int e = 0;
        long double m = std::frexp(v, &e);
        add((uint64_t) (int64_t) std::ldexp(m, 63));
        add((uint64_t) (int64_t) e);
    }
    void add_str(const std::string &s) { for (unsigned char c : s) { h = (h ^ c) * 0x100000001b3ull; } ++events; }
};

struct Outcome {
    bool ok = true;
    std::string clause;  ///< stable identifier of the oracle clause that failed, e.g. "first-occurrence-outside"
    std::string detail;  ///< human-readable description (may contain the failing query etc.)
    std::string preds;   ///< comma-separated input predicates satisfied by the plan (keys of known findings)
    std::string focus;   ///< optional: plan edit that focuses on the failing item, "Q <query>" for engine A
    uint64_t trace_hash = 0;

    void fail(const std::string &c, const std::string &d, const std::string &f = "") {
        if (!ok) return; // first failure wins
        ok = false; clause = c; detail = d; focus = f;
    }
};

/// Per-worker statistics, printed as one JSON line at exit and merged by bin/check.
struct Stats {
    std::map<std::string, uint64_t> counters;
    std::map<std::string, std::set<uint64_t>> distinct; ///< named sets of hashes (written to a side file)
    std::vector<std::string> samples;                   ///< a few executed plans, abbreviated (JSON strings)
    void inc(const std::string &k, uint64_t by = 1) { counters[k] += by; }
    void max(const std::string &k, uint64_t v) { auto &c = counters[k]; if (v > c) c = v; }
    void mark(const std::string &set, uint64_t h) { distinct[set].insert(h); }
};

inline std::string json_escape(const std::string &s) {
    std::string o;
    for (unsigned char c : s) {
        if (c == '"' || c == '\\') { o += '\\'; o += (char) c; }
        else if (c < 0x20) { char b[8]; std::snprintf(b, sizeof b, "\\u%04x", c); o += b; }
        else o += (char) c;
    }
    return o;
}

// --------------------------------------------------------------------------------------------------------------------
// Replay file: line-oriented text.  "key value" header lines, then item lines "<LETTER> payload".
// Header keys are engine-specific but a few are understood by the minimiser in bin/check (see there).
// Item lines are the units ddmin removes.  Lines starting with '#' are comments.

/// Exact text form of a key of any supported type held in a long double: decimal for integral values below 2^64 in
/// magnitude, hexfloat otherwise. strtold() parses both exactly.
inline std::string ld_to_text(long double v) {
    char b[64];
    if (v == std::floor(v) && std::fabs(v) < 18446744073709551616.0L) std::snprintf(b, sizeof b, "%.0Lf", v);
    else std::snprintf(b, sizeof b, "%La", v);
    return b;
}
inline long double text_to_ld(const std::string &s) { return std::strtold(s.c_str(), nullptr); }

struct PlanText {
    std::vector<std::pair<std::string, std::string>> hdr;
    std::vector<std::pair<char, std::string>> items;   ///< operations, faults ... (everything but K and Q lines)
    std::vector<long double> keys;                      ///< K lines: the key sequence, exact for every key type
    std::vector<long double> queries;                   ///< Q lines: explicit queries

    void set(const std::string &k, const std::string &v) {
        for (auto &p : hdr) if (p.first == k) { p.second = v; return; }
        hdr.emplace_back(k, v);
    }
    void set(const std::string &k, uint64_t v) { set(k, std::to_string(v)); }
    bool has(const std::string &k) const { for (auto &p : hdr) if (p.first == k) return true; return false; }
    std::string get(const std::string &k, const std::string &dflt = "") const {
        for (auto &p : hdr) if (p.first == k) return p.second;
        return dflt;
    }
    uint64_t get_u(const std::string &k, uint64_t dflt = 0) const {
        for (auto &p : hdr) if (p.first == k) return std::strtoull(p.second.c_str(), nullptr, 0);
        return dflt;
    }
    void item(char c, const std::string &payload) { items.emplace_back(c, payload); }

    bool save(const std::string &path) const {
        FILE *f = std::fopen(path.c_str(), "w");
        if (!f) return false;
        std::fprintf(f, "# PGM-index deterministic-simulation replay file (see /verif/DESIGN.md 3.7)\n");
        for (auto &p : hdr) std::fprintf(f, "%s %s\n", p.first.c_str(), p.second.c_str());
        for (auto &it : items) std::fprintf(f, "%c %s\n", it.first, it.second.c_str());
        for (auto &k : keys) std::fprintf(f, "K %s\n", ld_to_text(k).c_str());
        for (auto &q : queries) std::fprintf(f, "Q %s\n", ld_to_text(q).c_str());
        return std::fclose(f) == 0;
    }
    bool load(const std::string &path) {
        FILE *f = std::fopen(path.c_str(), "r");
        if (!f) return false;
        char *line = nullptr; size_t cap = 0; ssize_t len;
        while ((len = getline(&line, &cap, f)) >= 0) {
            while (len > 0 && (line[len - 1] == '\n' || line[len - 1] == '\r')) line[--len] = 0;
            if (len == 0 || line[0] == '#') continue;
            char *sp = std::strchr(line, ' ');
            std::string k = sp ? std::string(line, sp - line) : std::string(line);
            std::string v = sp ? std::string(sp + 1) : std::string();
            if (k == "K") keys.push_back(text_to_ld(v));
            else if (k == "Q") queries.push_back(text_to_ld(v));
            else if (k.size() == 1 && k[0] >= 'A' && k[0] <= 'Z') items.emplace_back(k[0], v);
            else hdr.emplace_back(k, v);
        }
        std::free(line);
        std::fclose(f);
        return true;
    }
};


inline std::vector<std::string> split_ws(const std::string &s) {
    std::vector<std::string> out;
    std::istringstream is(s);
    std::string t;
    while (is >> t) out.push_back(t);
    return out;
}

}
