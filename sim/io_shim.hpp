// Interface of the file-layer shim (E2), see io_shim.cpp.
#pragma once
#include <cstddef>
#include <cstdint>
#include <map>
#include <string>
#include <vector>

namespace sim {

struct IoFault {
    size_t call_index;   ///< index of the interposed I/O call within the current container operation
    std::string kind;    ///< eintr | short_io | open_fail | mmap_fail | (exploration only: write_error)
    uint64_t param;      ///< short_io: decides the length; open_fail: 0 = EMFILE, 1 = ENOMEM
    bool fired = false;
};

struct IoState {
    bool active = false;
    bool harness_io = false;                 ///< the harness itself is doing file I/O: no faults, no monitoring
    std::string scratch;                     ///< directory prefix of the files that belong to the run
    std::vector<IoFault> faults;             ///< faults of the current operation
    size_t call_index = 0;                   ///< interposed calls seen in the current operation
    std::map<std::string, uint64_t> fired;   ///< per fault kind, over the run
    std::map<std::string, uint64_t> calls_by_kind;
    std::map<std::string, std::vector<std::string>> write_class; ///< per path: write-class calls during the current operation
};
extern IoState g_io;

void io_begin_run(const std::string &scratch);
void io_end_run();
void io_begin_op(const std::vector<IoFault> &faults);
size_t io_end_op(); ///< returns the number of interposed calls of the operation

}
