/* Baton scheduler: real pthreads, exactly one runnable at a time, every hand-over decided by a seeded PRNG.
 * The whole scheduler state lives in sched.c, which is compiled WITHOUT any sanitizer and hands over through the raw
 * futex system call, so ThreadSanitizer sees neither the scheduler's state nor any happens-before edge between tasks
 * (DESIGN.md 3.2). */
#ifndef SIM_SCHED_H
#define SIM_SCHED_H
#include <stdint.h>
#ifdef __cplusplus
extern "C" {
#endif

#define SIM_MAX_TASKS 64

/* Reset for a new run. The calling thread becomes task 0 and holds the baton. preempt_permille: probability (in
 * 1/1000) that a yield point with >= 2 runnable tasks switches to another task. */
void sim_sched_reset(uint64_t seed, unsigned preempt_permille);
/* Register a new task (called by the creator, which holds the baton). The new thread must call sim_task_begin(id)
 * first and sim_task_end(id) last. */
int sim_task_register(void);
void sim_task_begin(int id);
/* The creator has joined the thread of a finished task: its slot may be reused. */
void sim_task_release(int id);
void sim_task_end(int id);
/* Yield point: maybe switch to another runnable task. Cheap no-op when the caller is the only runnable task. */
void sim_yield(void);
/* Forced yield: always switch if another task is runnable (used to randomise start order). */
void sim_yield_forced(void);
/* Block the caller until all listed tasks have ended; others run meanwhile. */
void sim_wait_tasks(const int *ids, int n);
/* Team barrier: the caller blocks until `team_size` tasks of team `team_id` have arrived (others run meanwhile). */
void sim_barrier(int team_id, int team_size);
/* Mutual exclusion between tasks (OpenMP critical / atomic fallbacks): a task finding the lock held yields until free. */
void sim_lock(int lock_id);
void sim_unlock(int lock_id);

/* Id of the calling task (0 for the main thread, -1 if the thread is unknown to the scheduler). */
int sim_self(void);

/* Counters for the current run. */
uint64_t sim_stat_yield_points(void);
uint64_t sim_stat_switches(void);
uint64_t sim_stat_decision_hash(void);
uint64_t sim_stat_tasks_created(void);

#ifdef __cplusplus
}
#endif
#endif
