// E5: storage reuse. In plain builds freed blocks are overwritten (glibc M_PERTURB fills every freed block, including
// those released through sdsl's malloc/free) while a lifetime history runs, so a dangling internal pointer yields
// different answers instead of plausible stale ones. Sanitizer builds rely on the sanitizer (ASan quarantine).
#include <malloc.h>
#include <cstdint>
namespace sim {
bool g_poison_on_delete = false;
uint64_t g_poisoned_blocks = 0;
void set_poison(bool on) {
#if !defined(__SANITIZE_ADDRESS__) && !defined(__SANITIZE_THREAD__)
    mallopt(M_PERTURB, on ? 0x5A : 0);
    g_poison_on_delete = on;
    if (on) ++g_poisoned_blocks;
#else
    (void) on;
#endif
}
}
